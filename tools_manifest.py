#!/usr/bin/env python3
"""Regenerates MANIFEST.json from the table below (keeps the file valid and consistent)."""
import json, os
HERE = os.path.dirname(os.path.abspath(__file__))
PY = "/venv/bin/python"
CHECKS = {}
def add(pid, cat, text, note, technique, ref):
    CHECKS[pid] = dict(cat=cat, text=text, note=note, technique=technique, ref=ref)

exec(open(os.path.join(HERE, "manifest_entries.py")).read())

NOT_APPLICABLE = NA  # noqa: F821

manifest = {
    "version": 1,
    "setup_cmd": "sh setup.sh",
    "hooks": {
        "guard": "MARKDOWN_IT_PY_VERIF",
        "enable": "no hooks were needed: every observation point is public API, sys.setprofile or sys.monitoring; the checks import /repo's working tree directly (pure Python, nothing to build) and set MARKDOWN_IT_PY_VERIF=1 for uniformity",
        "baseline_off_cmd": "cd /repo && /venv/bin/python -m pytest -ra -q -p no:cacheprovider --timeout=900 --continue-on-collection-errors",
        "source_commits": [],
        "add_only": True,
    },
    "engines": [
        {"name": "runner", "path": "run_check.py", "serves_properties": sorted(CHECKS), "kind_free_text": "Hypothesis (seeded, generate phase, 16 shards) + bounded-exhaustive enumeration + collect/bucket/ddmin-shrink/replay driver with explicit oracles per property (vlib/props/*.py)"},
    ],
    "checks": [],
    "not_applicable": NOT_APPLICABLE,
    "notes": "All checks: /venv/bin/python run_check.py <ID> --tier quick|thorough; replay with --replay <file>; honour VERIF_SEED. known_findings.json lists repaired (fixed:) and open findings.",
}
for pid in sorted(CHECKS):
    c = CHECKS[pid]
    manifest["checks"].append({
        "property_id": pid,
        "quick_cmd": f"{PY} run_check.py {pid} --tier quick",
        "thorough_cmd": f"{PY} run_check.py {pid} --tier thorough",
        "evidence_file": f"evidence/{pid}.json",
        "replay_cmd_template": f"{PY} run_check.py {pid} --replay {{path}}",
        "engine": "runner",
        "level_claimed": {"category": c["cat"], "text": c["text"], "design_ref": c["ref"]},
        "level_note": c["note"],
        "technique": c["technique"],
    })
json.dump(manifest, open(os.path.join(HERE, "MANIFEST.json"), "w"), indent=1)
print("MANIFEST.json:", len(manifest["checks"]), "checks,", len(NOT_APPLICABLE), "not_applicable")

"""Hypothesis strategies that build Markdown by construction.

Every random choice goes through Hypothesis (``draw``), so cases shrink and replay.  The
generators are deliberately *constructive*: block trees are serialised with consistent
container prefixes, so multi-line constructs inside containers are frequent, and then
optionally perturbed (lazy continuation, truncation at any offset, hot characters, ...).
"""
from __future__ import annotations

import re

import json
import os
from functools import lru_cache

from hypothesis import strategies as st

from . import cfg as C

HERE = os.path.dirname(os.path.abspath(__file__))
CORPUS = json.load(open(os.path.join(os.path.dirname(HERE), "corpus", "docs.json"), encoding="utf-8"))


@lru_cache(maxsize=None)
def _ints(a: int, b: int):
    return st.integers(a, b)


_UNI_TEXT = st.text(st.characters(exclude_categories=["Cs"]), max_size=12)
_UNI_CHAR = st.characters(exclude_categories=["Cs"])


class D:
    """Thin convenience layer over ``draw``."""

    __slots__ = ("draw",)

    def __init__(self, draw):
        self.draw = draw

    def i(self, a: int, b: int) -> int:
        return self.draw(_ints(a, b))

    def pick(self, seq):
        return seq[self.draw(_ints(0, len(seq) - 1))]

    def chance(self, p: float) -> bool:
        # shrinks towards False
        return self.draw(_ints(0, 999)) >= 1000 - int(p * 1000)

    def weighted(self, pairs):
        """pairs: sequence of (weight, value); shrinks towards the first entries."""
        total = sum(w for w, _ in pairs)
        k = self.draw(_ints(0, total - 1))
        for w, v in pairs:
            if k < w:
                return v
            k -= w
        return pairs[-1][1]

    def unitext(self) -> str:
        return self.draw(_UNI_TEXT)

    def unichar(self) -> str:
        return self.draw(_UNI_CHAR)


# --------------------------------------------------------------------------------------------
# vocabulary

WORDS = [
    "a", "b", "foo", "bar", "x", "y1", "Zed", "é", "ß", "İ", "ǅ", "日本", "a\u0301", "ΑΓΩ", "don't", "e.g.",
    "1", "42", "a_b_c", "a*b", "x-y", "http", "www", "q.r", "\u00a0", "\u200b", "\u202e", "\U0001f600",
    "\u3000", "\u2003", "\x0b", "\x0c", "\ufeff", "\ufffd", "\x7f", "\x01", "\x1f", "\x85", "\u2028",
]
PUNCT = list("!\"#$%&'()*+,-./:;<=>?@[\\]^_`{|}~")
HOT = list("*_`[]()<>!&#\\\"'|~-+=:/.;^ \t\n") + ["\r", "\0", "\u00a0", "\u2003", "\x0b", "\x0c"]
ENTITIES = [
    "&amp;", "&lt;", "&gt;", "&quot;", "&copy;", "&nbsp;", "&auml;", "&AElig;", "&Dcaron;", "&frac34;",
    "&HilbertSpace;", "&DifferentialD;", "&ClockwiseContourIntegral;", "&ngE;", "&colon;", "&Tab;",
    "&NewLine;", "&bad;", "&amp", "&;", "&#;", "&#x;", "&x;", "&#35;", "&#1234;", "&#992;", "&#0;",
    "&#X22;", "&#XD06;", "&#xcab;", "&#87654321;", "&#abcdef0;", "&#xD800;", "&#xDFFF;", "&#x110000;",
    "&#1;", "&#13;", "&#10;", "&#9;", "&#32;", "&#127;", "&#128;", "&#xFFFE;", "&#x1FFFF;", "&#65;",
    "&#x41;", "&#x0041;", "&#00000065;", "&#x00000041;", "&#12345678;", "&#x1000000;", "&#xFFFFFFF0;", "&#99999999;", "&#x7FFFFFFF;", "&#16777216;",
    "&#xFDF0;", "&#xFDFA;", "&#xFDCF;", "&#xFFFD;", "&#x10FFFD;", "&#xD7FF;", "&#xE000;", "&#160;", "&#xFEFF;", "&lbrack;", "&ast;", "&lowbar;",
    "&grave;", "&bsol;", "&excl;", "&num;", "&lpar;", "&rpar;", "&vert;", "&apos;",
]
SCHEMES = ["http", "https", "mailto", "ftp", "javascript", "vbscript", "file", "data", "JaVaScRiPt", "x", "a+b.c-d"]
URLS = [
    "/u", "u", "#f", "/a b", "http://a.b/c?d=e&f=g", "http://a.b/%41%zz", "/ü/ö", "//x.y", "x:y", "u(v)w",
    "\\(x", "&amp;x", "javascript:alert(1)", "JAVASCRIPT:x", "data:image/png;base64,AA", "data:text/html,x",
    "vbscript:x", "file:///etc", "&#106;avascript:x", "java\\script:x", "http://ex.com/\"q\"", "/u<v>",
    "/a*b*c", "/a_b_", "http://xn--n3h.net/", "http://☃.net/", "http://a.b/[c]", "/%", "/%2", "/%25",
    "mailto:a@b.c", "http://xn--a-rc4g.com", "http://xn--xn.com/", "https://xn--1.example", "http://xn--γ.com/", "mailto:a@xn--a-rc4g.com", "//xn--a-rc4g.com/p", "http://[::1]/", "http://a.b:80/", "/\u00a0", "", "<", ">", "/a\\b", "/'q'",
]
TITLES = ["t", "a b", 'q"r', "it's", "(p)", "a\\\"b", "&quot;e", "*e*", "<b>", "a\nb", "", "\\", "&amp;", "  s  ",
          "x\\\ny", "a\\\n", "a\n-\nb", "a\n    # b", "a\n1. b", "a\n> b", "a\n***", "&#X41;", "&#x41;", "a\n\tb"]
HTML_INLINE = [
    "<a>", "<b>", "</b>", "<a href=\"x\">", "<a href='x' b=c d>", "<br/>", "<img src=x />", "<!-- c -->", "<!---->",
    "<!-->", "<!--->", "<!-- a -- b -->", "<?php x ?>", "<?>", "<!DOCTYPE x>", "<!x>", "<![CDATA[ x ]]>", "<![CDATA[>",
    "<a", "<a b=>", "< a>", "<a/ >", "<33>", "<a_b>", "</a >", "</ a>", "</a b>", "<a\nb='c'>", "<a b='c\nd'>",
    "<A HREF=x>", "</A>", "<a href=\"y\">z</a>", "<x-y z_:.-=1>", "<!-- \n -->", "<!--x-", "<?", "<!A", "<![CDATA[",
]
HTML_BLOCK_OPEN = [
    "<div>", "<div class=\"a\">", "</div>", "<pre>", "<script>", "<style>", "<textarea>", "</pre>", "</script>",
    "<!-- c", "<!-- c -->", "-->", "<?php", "?>", "<!DOCTYPE html>", "<![CDATA[", "]]>", "<table>", "<p>", "</p>",
    "<hr/>", "<h1>", "<a href=\"x\">", "<b>", "</b>", "<custom-tag a=\"b\">", "<del>", "<DIV>", "<div", "<div/>",
    "<div >x", "<pre>x</pre>", "<!--", "<address>", "<summary>", "<iframe>", "<a\nb>", "<a href='x'>y</a>",
]
LEAVES = [
    "", " ", "a", "a b", "foo", "# h", "## h ##", "#", "###### x", "####### x", "#\tx", "# x #", "# x \\#", "---", "***",
    "___", "- - -", "* * *", " ***", "    ***", "_ _ _ _", "-- -", "===", "--", "=", "= =", "```", "````", "~~~", "``` py",
    "~~~ x y", "```\x0b", "~~~ \u00a0", "``` &#10;", "``` a`b", "~~~ a~b", "```\tpy", "    code", "     code2", "\tcode", "  \tcode", "> q", ">", ">q", "> > q",
    "- a", "-", "- ", "* a", "+ a", "1. a", "1) a", "2. b", "10. z", "-   a", "-     a", "0. z", "123456789. a",
    "1234567890. a", "-1. a", "1.", "1. ", "[a]: /u", "[a]: /u 'T'", "[b]: <x y> \"t\"", "[a]", "[a][b]", "[a]:", "[a]: ",
    "[x](y)", "![i](s)", "<div>", "</div>", "<!-- c -->", "<?php", "?>", "<pre>", "</pre>", "<a href=x>", "<b>", "*e*",
    "**s**", "`c`", "``", "a|b", "-|-", "|a|b|", "|-|-|", ":-:|-:", "1|2", "a\\|b|c", "|", "|-", "-|", ":-", "a  ", "a\\",
    "&amp;", "&#35;", "\\*x", "<http://a.b>", "<a@b.c>", "~~s~~", "a_b_c", "\"q\" 'r'", "(c) ... --", "http://x.y",
    "  a", "   a", " - a", "  - b", "   - c", "    - d", "  1. x", "   > z", "\\", "`", "* * a", "- # h", "> ```", "- ```",
    ">     c", "- \x0c", "1. \u3000", "- \xa0", "> \x0b", "\x0c", "\u2028", "-\x0c\n- b", "². a", "①) a", "٣. a", "1２. a", "-\ta", ">\ta", "1.\ta", "[a]: /u \"t", "[a]: <u", "[", "]", "![", "](", "\"", "'", "a\u00a0", "\u00a0a", "\x0bx",
    "\u00a0# h", "\u00a0> q", "\u00a0- a", "\u00a0\u00a0\u00a0\u00a0code", "\x0c# h", "\u3000- a", "\u2003> q", "\x0b    c", "\u00a01. a", "\u2028# h", "\x1f- a", "\u00a0```", "\ufeff# h", "\ufeff    code", "\ufeff<div>", "\ufeff> q",
    "######", "#######", "########", "############", "####### ", "#######\t", "   #######", "## ##", "#######\\", "1234567890.", "123456789)", "10. a", "99) b",
]
CONTAINER_PREFIXES = [
    "> ", ">", " > ", "- ", "  ", "    ", "   ", "1. ", "* ", "+ ", "> - ", "- > ", "> > ", ">> ", "   - ", "10) ",
    "\t", ">\t", "-\t", "  > ", " \t", "1.\t", ">  ", "-  ", "-    ", ">\t\t",
]


# --------------------------------------------------------------------------------------------
# inline text


def word(d: D) -> str:
    k = d.i(0, 11)
    if k < 9:
        return d.pick(WORDS)
    if k == 9:
        return d.unitext()
    if k == 10:
        return d.pick(WORDS) + d.pick(PUNCT)
    return "".join(d.pick(PUNCT) for _ in range(d.i(1, 3)))


def url(d: D) -> str:
    k = d.i(0, 9)
    if k < 6:
        return d.pick(URLS)
    if k < 8:
        return d.pick(SCHEMES) + d.pick([":", "://", "&colon;", "&#58;", "\\:"]) + d.pick(["x", "a.b/c", "alert(1)", "image/gif;x", "//h/p?q#f"])
    return d.pick(URLS) + d.pick(HOT) + d.pick(WORDS)


def link_dest(d: D) -> str:
    u = url(d)
    if d.chance(0.12):
        # every character reference in every place references are decoded
        u = u + d.pick(ENTITIES)
    k = d.i(0, 5)
    if k == 0:
        return "<" + u + ">"
    if k == 1:
        return "<" + u.replace("<", "\\<").replace(">", "\\>") + ">"
    if k == 2:
        return u.replace(" ", "%20")
    return u


def link_title(d: D) -> str:
    k = d.i(0, 5)
    if k < 2:
        return ""
    t = d.pick(TITLES)
    if d.chance(0.12):
        t = t + d.pick(ENTITIES)
    q = d.pick(['""', "''", "()", '""'])
    if d.chance(0.8):
        t = t.replace(q[0], "\\" + q[0]).replace(q[1], "\\" + q[1])
    return d.pick([" ", " ", "  ", "\n", "\t"]) + q[0] + t + q[1]


def label(d: D) -> str:
    return d.pick(["a", "r", "foo", "Foo Bar", "FOO", "ÄÖ", "äö", "ß", "ẞ", "SS", "x  y", "x\ny", "q\\]", "*e*", "`c`", "i", "İ", "[", "!", "a b c", " a ", "", "\\"])


def inline_atom(d: D, depth: int, oneline: bool) -> str:
    k = d.weighted(
        [
            (30, "word"), (8, "punct"), (10, "emph"), (3, "strike"), (7, "code"), (8, "link"), (5, "image"),
            (5, "ref"), (4, "autolink"), (5, "html"), (6, "entity"), (6, "escape"), (4, "break"), (5, "typo"),
            (3, "urlish"), (5, "unbalanced"),
        ]
    )
    if depth >= 3 and k in ("emph", "strike", "link", "image", "ref"):
        k = "word"
    if k == "word":
        return word(d)
    if k == "punct":
        return "".join(d.pick(PUNCT) for _ in range(d.i(1, 4)))
    if k == "emph":
        m = d.pick(["*", "_", "*", "**", "__", "***", "___", "*_", "**_"])
        m2 = m[::-1] if d.chance(0.9) else d.pick(["*", "_", "**", "__", ""])
        return m + inline(d, depth + 1, oneline, 3) + m2
    if k == "strike":
        m = d.pick(["~~", "~~", "~", "~~~"])
        body = inline(d, depth + 1, oneline, 3)
        if d.chance(0.4):
            body = body.rstrip(" ")
        return m + body + d.pick(["~~", m, "~~~", "~~~~", "~", "~~~~~"])
    if k == "code":
        n = d.i(1, 3)
        body = d.pick(["c", " c ", "a`b", "``", " ", "  ", " a", "a ", "\u00a0c\u00a0", " \u00a0 ", "a  b", "*x*", "<b>", "&amp;", "\\", "a\nb", " \n ", "\tc\t", "\x0bc\x0b", "[l](u)", "|"])
        if oneline:
            body = body.replace("\n", " ")
        close = "`" * (n if d.chance(0.9) else d.i(1, 3))
        return "`" * n + body + close
    if k == "link":
        txt = inline(d, depth + 1, oneline, 3)
        if d.chance(0.85):
            return "[" + txt + "](" + d.pick(["", " ", "\n" if not oneline else ""]) + link_dest(d) + link_title(d).replace("\n", " " if oneline else "\n") + d.pick(["", " "]) + ")"
        return "[" + txt + "](" + d.pick(["", "<", "u \"", "u (", "u 't", "(", "u\\", "<u"])
    if k == "image":
        txt = inline(d, depth + 1, oneline, 3)
        return "![" + txt + "](" + link_dest(d) + link_title(d).replace("\n", " " if oneline else "\n") + ")"
    if k == "ref":
        lab = label(d)
        if oneline:
            lab = lab.replace("\n", " ")
        f = d.pick(["[{l}]", "[{t}][{l}]", "[{l}][]", "![{l}]", "![{t}][{l}]", "[{l}] [x]", "[{t}][{l}", "[{l}]:", "![][{l}]", "[][{l}]", "![ ][{l}]"])
        return f.replace("{l}", lab).replace("{t}", inline(d, depth + 1, oneline, 2) if "{t}" in f else "")
    if k == "autolink":
        j = d.i(0, 5)
        if j < 3:
            return "<" + d.pick(SCHEMES) + ":" + d.pick(["//a.b/c", "//xn--a-rc4g.com", "//xn--xn.com/", "//xn--n3h.net/", "//xn--γ.com/", "a@xn--1.b", "x", "a\"b\"", "a'b'", "a*b*", "a b", "", "//a.b/<", "a\\b", "%41&amp;"]) + ">"
        if j == 3:
            return "<" + d.pick(["a@b.c", "a.b-c_d@e.f", "a@b", "@", "a+b@c.d.e", "a\\@b.c"]) + ">"
        return "<" + word(d) + ">"
    if k == "html":
        h = d.pick(HTML_INLINE)
        return h.replace("\n", " ") if oneline else h
    if k == "entity":
        return d.pick(ENTITIES)
    if k == "escape":
        j = d.i(0, 5)
        if j < 3:
            return "\\" + d.pick(PUNCT)
        if j == 3:
            return "\\" + d.pick(["a", " ", "\\", "é", "1"])
        if j == 4 and not oneline:
            return "\\\n"
        return "\\"
    if k == "break":
        if oneline:
            return d.pick(["  ", " ", "\t", "\\"])
        return d.pick(["\n", "  \n", "   \n", "\\\n", " \n", "\t\n", "\n  ", "\n\t"])
    if k == "typo":
        return d.pick(['"', "'", '"q"', "'r'", "don't", "(c)", "(C)", "(tm)", "(tM)", "(Tm)", "(TM)", "(R)", "(r)", "(p)", "+-", "...", "....", "?....", "!....", "?!..", "!!!!", "???", ",,", "--", "---", "----", "a--b", "a -- b", "1\"", "5'", "\"'", "'\"", "''", '""', "\"a 'b' c\"", "'a \"b\" c'"])
    if k == "urlish":
        return d.pick(["http://a.b", "https://x.y/z?q=1&r=2", "www.a.b", "a@b.c", "ftp://f.g/h", "http://a.b/c_d_e", "http://a.b/*x*", "javascript://x", "mailto:a@b.c", "http://a.b.", "http://a.b/(c)", "x://y", "http://\"q\"", "file://x/y", "http://a.b/'q'"])
    # unbalanced
    return d.pick(["[", "]", "![", "](", ")", "(", "*", "**", "_", "__", "~~", "`", "``", "<", ">", "&", "[[", "]]", "[]", "[]()", "![]()", "[](", "[a](<b)c>", "[a](b \"c)", "*a **b* c**", "**a *b** c*", "_a*b_c*", "*[a*](b)", "[*a](b)*", "`a[`](b)", "[a`](b)`", "<a href=\"`\">`", "[<](a)>", "[a](<b>c)", "***a** b*", "*a **b***", "__a_b__"])


def inline(d: D, depth: int = 0, oneline: bool = False, maxn: int = 6) -> str:
    n = d.i(1, maxn)
    out = []
    for _ in range(n):
        out.append(inline_atom(d, depth, oneline))
        out.append(d.pick(["", " ", "", " ", ""]))
    return "".join(out)


DELIMS = [
    "*", "**", "***", "_", "__", "~~", "~~~", "~", "[", "](u)", "](/u \"t\")", "]", "![", "`", "``", "a", "b", " ", " ", "<http://x.y>",
    "<b>", "&amp;", "\\", "\\*", "[r]", "][r]", "(", ")", "\n", "http://a.b", "'", "\"",
]


def delim_soup(d: D, oneline: bool = False) -> str:
    """Dense interplay of delimiter runs, brackets and link tails (balance_pairs territory)."""
    out = []
    for _ in range(d.i(2, 12)):
        t = d.pick(DELIMS)
        if oneline and t == "\n":
            t = " "
        out.append(t)
    return "".join(out)


def tight_nest(d: D, depth: int = 0) -> str:
    """Nested delimiter constructs written without separators, with open/close run lengths varied
    independently: emphasis/strike runs directly against brackets, link tails and each other."""
    k = d.weighted([(4, "word"), (3 if depth < 3 else 0, "delim"), (3 if depth < 3 else 0, "link"), (1 if depth < 3 else 0, "image"), (1, "code"), (1, "auto")])
    if k == "word":
        return d.pick(["a", "b", "c d", "x", "é", "1", "a b", "\"", "'", "\"a\"", "~", "\\~", "&#126;"])
    if k == "code":
        return "`" + d.pick(["c", "*", "~~", "]", "["]) + "`"
    if k == "auto":
        return d.pick(["<http://x.y>", "<b>", "&amp;", "\\*", "\\~"])
    inner = "".join(tight_nest(d, depth + 1) for _ in range(d.i(1, 3)))
    if k == "delim":
        ch = d.pick(["*", "_", "~", "*", "~"])
        return ch * d.i(1, 3) + inner + ch * d.i(1, 5 if ch == "~" else 3)
    tail = d.pick(["](u)", "](/u \"t\")", "][r]", "]", "][]", "](u"])
    return ("![" if k == "image" else "[") + inner + tail


@st.composite
def inline_text(draw, oneline: bool = False, maxn: int = 6):
    return inline(D(draw), 0, oneline, maxn)


# --------------------------------------------------------------------------------------------
# block documents


def _para_lines(d: D, maxl: int = 3) -> list[str]:
    txt = inline(d, 0, False, 4)
    lines = [x for x in txt.split("\n")]
    lines = [x for x in lines[:maxl]]
    if not any(x.strip() for x in lines):
        lines = ["p"]
    # a paragraph has no interior blank lines
    lines = [x if x.strip(" \t") else "p" for x in lines]
    return lines


def refdef_lines(d: D) -> list[str]:
    lab = label(d)
    dest = d.pick(["/u", "<a b>", "http://x.y/?q=1&r=2", "u(v)w", "\\(x", "&amp;x", "javascript:x", "/ü", "#f", "<>", "<", "u\"t\"", "/a*b"])
    if d.chance(0.1):
        dest = dest + d.pick(ENTITIES)
    if d.chance(0.6):
        title = d.pick(["", "", ' "t"', " 't u'", " (p)", ' "a \\" b"', '\n"t2"', '\n  "multi\nline"', ' "un', " x", '\n"bad" x', ' "t"  '])
    else:
        # built title: 1-3 lines, some ending in a backslash or looking like a block start
        q = d.pick(['""', "''", "()"])
        parts = [d.pick(["t", "a b", "x\\", "\\", "&amp;", "&#X41;", "\\" + q[1], "*e*", "-", "- ", "# h", "    i", "    # b", "1. o", "2. o", "+", "```", ">", "<b>", "===", "\tq"]) for _ in range(d.i(1, 3))]
        title = d.pick([" ", "\n", "\n  ", "\t"]) + q[0] + "\n".join(parts) + q[1] + d.pick(["", "", " ", " x"])
    sep = d.pick([" ", " ", "\n", "  ", "\n   ", "\t", ""])
    ind = d.pick(["", "", "", " ", "   "])
    return (ind + "[" + lab + "]:" + sep + dest + title).split("\n")


def table_lines(d: D) -> list[str]:
    ncol = d.i(1, 4)
    def cell():
        return d.pick(["a", "b c", "*e*", "`c`", "`a|b`", "a\\|b", "", " ", "[l](u)", "\\", "<b>", "&amp;", "**", "\\\\|", "` \\| `"])
    lead = d.pick(["", "", "|", "| "])
    trail = d.pick(["", "", "|", " |"])
    header = lead + d.pick(["|", " | ", "|  "]).join(cell() or "h" for _ in range(ncol)) + trail
    delim = lead + "|".join(d.pick(["-", "---", ":-", "-:", ":-:", " --- ", ":", "-x", "- -"] if d.chance(0.1) else ["-", "---", ":-", "-:", ":-:", " --- "]) for _ in range(ncol if d.chance(0.9) else d.i(1, 4))) + trail
    rows = []
    for _ in range(d.i(0, 3)):
        rows.append(lead + "|".join(cell() for _ in range(d.i(1, 5) if d.chance(0.2) else ncol)) + trail)
    return [header, delim] + rows


def leaf_block(d: D, tabs: bool) -> list[str]:
    k = d.weighted(
        [
            (24, "para"), (7, "atx"), (5, "setext"), (5, "hr"), (7, "icode"), (9, "fence"), (7, "html"),
            (7, "refdef"), (6, "table"), (8, "tricky"), (2, "blank"),
        ]
    )
    if k == "para":
        lines = _para_lines(d)
        if d.chance(0.15):
            lines = [d.pick(["  ", " ", "   "]) + x for x in lines]
        return lines
    if k == "atx":
        n = d.i(1, 7)
        sp = d.pick([" ", " ", "  ", "", "\t" if tabs else " "])
        tail = d.pick(["", "", " #", " ###", " \\#", "#", " # ", "  ##  "])
        return [d.pick(["", "", " ", "   "]) + "#" * n + sp + inline(d, 0, True, 3) + tail]
    if k == "setext":
        return _para_lines(d, 2) + [d.pick(["", " ", "   "]) + d.pick(["===", "=", "---", "--", "-", "= =", "--- "])]
    if k == "hr":
        m = d.pick(["-", "*", "_"])
        return [d.pick(["", " ", "   "]) + d.pick(["", " ", "  "]).join(m for _ in range(d.i(3, 6))) + d.pick(["", " ", "  "])]
    if k == "icode":
        ind = d.pick(["    ", "     ", "      ", "\t" if tabs else "    ", "  \t" if tabs else "    ", "    \t" if tabs else "        "])
        out = []
        for _ in range(d.i(1, 3)):
            out.append(ind + d.pick(["code", "  x", "a\tb" if tabs else "a b", "<b>", "*e*", "> q", "- l", "```", "&amp;", "\\", " "]))
            if d.chance(0.2):
                out.append(d.pick(["", "  ", "    ", "      "]))
        while out and not out[-1].strip():
            out.pop()
        return out or [ind + "c"]
    if k == "fence":
        ch = d.pick(["`", "~"])
        n = d.i(3, 5)
        info = d.pick(["", "", "py", " py ", "py x=1", "a`b" if ch == "~" else "a~b", "&amp;", "\\*", "<b>", "\"q\"", "py\tz" if tabs else "py z", "é", " ", "a\\ b", "{.x}", "&#35;", "\x0b", "\u00a0", "\u2003 ", "&#10;", "&NewLine;", "&#32;", "&nbsp;", " \x0c\x1f", "\u3000x"])
        ind = d.pick(["", "", " ", "  ", "   "])
        if d.chance(0.1):
            info = info + d.pick(ENTITIES)
        body = []
        for _ in range(d.i(0, 3)):
            body.append(d.pick(["", "", " ", "  "]) + d.pick(["x", "", "  y", ch * 2, ch * n + " z", "> q", "- l", "<b>", "&amp;", "    i", "\tt" if tabs else "  t", "[a]: /u", "```" if ch == "~" else "~~~"]))
        out = [ind + ch * n + info] + body
        if d.chance(0.75):
            out.append(d.pick(["", " ", "   "]) + ch * (n + d.i(0, 2)) + d.pick(["", "", " ", "  "]))
        elif d.chance(0.3):
            out.append(ch * (n - 1))
        return out
    if k == "html":
        first = d.pick(HTML_BLOCK_OPEN)
        out = first.split("\n")
        for _ in range(d.i(0, 2)):
            out.append(d.pick(["x", "*e*", "  y", "</div>", "-->", "?>", "]]>", "</pre>", "<b>", "> q", "- l", "    c", "&amp;"]))
        if d.chance(0.2):
            out = [d.pick([" ", "  ", "   "]) + out[0]] + out[1:]
        return out
    if k == "refdef":
        out = refdef_lines(d)
        for _ in range(d.i(0, 2)):
            if d.chance(0.5):
                out += refdef_lines(d)
        return out
    if k == "table":
        return table_lines(d)
    if k == "tricky":
        out = [d.pick(LEAVES)]
        if d.chance(0.3):
            out.append(d.pick(LEAVES))
        if not tabs:
            out = [x.replace("\t", "  ") for x in out]
        return out
    return [""]


def _quote_prefix(d: D, tabs: bool) -> str:
    return d.weighted([(10, "> "), (3, ">"), (2, " > "), (1, "   > "), (1, ">  "), (1 if tabs else 0, ">\t"), (1, ">     ")])


def block_seq(d: D, depth: int, maxdepth: int, tabs: bool, maxblocks: int = 4) -> list[str]:
    """A sequence of blocks as a list of lines (no line terminators)."""
    out: list[str] = []
    n = d.i(1, maxblocks if depth == 0 else 2)
    for bi in range(n):
        if bi and d.chance(0.8):
            out.append("")
            if d.chance(0.1):
                out.append(d.pick(["", "  ", "\t" if tabs else " "]))
        k = d.weighted([(60, "leaf"), (20 if depth < maxdepth else 0, "quote"), (20 if depth < maxdepth else 0, "list")])
        if k == "leaf":
            out += leaf_block(d, tabs)
        elif k == "quote":
            inner = block_seq(d, depth + 1, maxdepth, tabs) or ["x"]
            uniform = d.chance(0.6)
            p = _quote_prefix(d, tabs)
            lines = []
            for j, ln in enumerate(inner):
                if not uniform:
                    p = _quote_prefix(d, tabs)
                if j and ln.strip() and d.chance(0.08):
                    lines.append(ln)  # lazy continuation
                elif not ln.strip() and d.chance(0.3):
                    lines.append(p.rstrip() if d.chance(0.7) else "")
                else:
                    lines.append(p + ln)
            out += lines
        else:
            ordered = d.chance(0.4)
            bullet = d.pick(["-", "*", "+"])
            delim = d.pick([".", ")"])
            num = d.pick([1, 1, 0, 2, 7, 10, 123456789, 1234567890])
            loose = d.chance(0.3)
            for ii in range(d.i(1, 3)):
                marker = (str(num + ii) + delim) if ordered else bullet
                if d.chance(0.05):
                    marker = d.pick(["-", "*", "+", "1.", "1)"])
                sp = d.weighted([(10, " "), (2, "  "), (1, "   "), (1, "    "), (1, "     "), (1 if tabs else 0, "\t")])
                lead = d.pick(["", "", "", " ", "  ", "   "])
                inner = block_seq(d, depth + 1, maxdepth, tabs) or ["x"]
                w = len(lead) + len(marker) + (len(sp) if len(sp) <= 4 and sp != "\t" else 1)
                if sp == "\t":
                    w = ((len(lead) + len(marker)) // 4 + 1) * 4
                if d.chance(0.07):
                    # empty first line
                    out.append(lead + marker)
                    first = []
                else:
                    first = [lead + marker + sp + inner[0]]
                    inner = inner[1:]
                out += first
                for ln in inner:
                    if not ln.strip():
                        out.append("" if d.chance(0.8) else " " * w)
                    elif d.chance(0.06):
                        out.append(ln)  # lazy / under-indented
                    else:
                        out.append(" " * (w + (d.i(0, 1) if d.chance(0.1) else 0)) + ln)
                if loose:
                    out.append("")
    return out


LOOKALIKE = {
    "digit": "²¹⁵①⒈٣１߁৪⑴",
    " ": "\u00a0\u2003\u3000\x0b\x0c\u1680\u2028\x85\x1c\u200b",
    "\n": "\x0b\x0c\x85\u2028\u2029\x1c\x1d\x1e",
    "alpha": "ａÀаıİſK",
    "-": "‐−–", "*": "∗＊", "#": "＃", ">": "＞", "`": "｀", ".": "．。", ")": "）", "|": "｜", "[": "［", "]": "］", ":": "：",
    "<": "＜", "&": "＆", "\\": "＼", "~": "～", "=": "＝", "_": "＿", '"': "＂“", "'": "＇’", "+": "＋", "(": "（", ";": "；", "/": "／",
}


def lookalike(d: D, src: str) -> str:
    """Replace one structural ASCII character by a Unicode look-alike (str.isdigit / isspace /
    isalnum / strip / lower are all broader than their ASCII namesakes)."""
    if not src:
        return src
    for _ in range(4):
        i = d.i(0, len(src) - 1)
        ch = src[i]
        key = "digit" if ch in "0123456789" else ("alpha" if ch.isascii() and ch.isalpha() else ch)
        alts = LOOKALIKE.get(key)
        if alts:
            return src[:i] + d.pick(alts) + src[i + 1 :]
    return src


def tab_spellings(c0: int, c1: int, limit: int = 24) -> list[str]:
    """All spellings of a blank run covering columns [c0, c1) with spaces and tabs, every tab
    ending exactly on a tab stop (multiple of 4)."""
    out: list[str] = []

    def rec(c: int, acc: str) -> None:
        if len(out) >= limit:
            return
        if c == c1:
            out.append(acc)
            return
        rec(c + 1, acc + " ")
        nxt = (c // 4 + 1) * 4
        if nxt <= c1:
            rec(nxt, acc + "\t")

    rec(c0, "")
    return out


def tab_respell_line(d: D, line: str) -> str:
    """Respell one run of spaces in the structural prefix of a line with a column-equivalent
    mix of tabs and spaces (or, rarely, a non-equivalent tab)."""
    import re as _re

    runs = [m for m in _re.finditer(r" +", line) if m.start() < 14]
    if not runs:
        return "\t" + line if d.chance(0.3) else line
    m = d.pick(runs)
    col = 0
    for ch in line[: m.start()]:
        col = (col // 4 + 1) * 4 if ch == "\t" else col + 1
    opts = [o for o in tab_spellings(col, col + (m.end() - m.start())) if "\t" in o]
    if opts and d.chance(0.85):
        rep = d.pick(opts)
    else:
        rep = "\t" * d.i(1, 2)
    return line[: m.start()] + rep + line[m.end() :]


def perturb(d: D, src: str, tabs: bool = True) -> str:
    k = d.weighted(
        [
            (40, "none"), (12, "truncate"), (6, "dropline"), (4, "dupline"), (4, "swap"), (8, "hot"), (6, "nofinal"),
            (7, "tabify" if tabs else "none"), (3, "unprefix"), (3, "crlf"), (2, "nul"), (3, "hotline"), (8, "lookalike"), (4, "casing"),
        ]
    )
    if k == "none" or not src:
        return src
    if k == "truncate":
        return src[: d.i(0, len(src))]
    if k == "lookalike":
        return lookalike(d, src)
    if k == "casing":
        # case-insensitive matching followed by case-sensitive lookup is a classic: flip the case of one letter
        idxs = [i for i, ch in enumerate(src) if ch.isascii() and ch.isalpha()]
        if idxs:
            i = d.pick(idxs)
            return src[:i] + src[i].swapcase() + src[i + 1 :]
        return src
    lines = src.split("\n")
    if k == "dropline":
        i = d.i(0, len(lines) - 1)
        return "\n".join(lines[:i] + lines[i + 1 :])
    if k == "dupline":
        i = d.i(0, len(lines) - 1)
        return "\n".join(lines[: i + 1] + lines[i:])
    if k == "swap" and len(lines) > 1:
        i = d.i(0, len(lines) - 2)
        lines[i], lines[i + 1] = lines[i + 1], lines[i]
        return "\n".join(lines)
    if k == "hot":
        i = d.i(0, len(src))
        return src[:i] + d.pick(HOT) + src[i:]
    if k == "nofinal":
        return src.rstrip("\n") if d.chance(0.7) else src + "\n"
    if k == "tabify" and d.chance(0.6):
        for _ in range(d.i(1, 3)):
            i = d.i(0, len(lines) - 1)
            lines[i] = tab_respell_line(d, lines[i])
        return "\n".join(lines)
    if k == "tabify":
        i = d.i(0, len(lines) - 1)
        ln = lines[i]
        n = len(ln) - len(ln.lstrip(" "))
        if n >= 1:
            j = d.i(1, min(n, 4))
            lines[i] = ln[: n - j] + "\t" + ln[n:]
        else:
            lines[i] = "\t" + ln
        return "\n".join(lines)
    if k == "unprefix":
        i = d.i(0, len(lines) - 1)
        lines[i] = lines[i].lstrip(" >\t-*+")
        return "\n".join(lines)
    if k == "crlf":
        return src.replace("\n", d.pick(["\r\n", "\r"]), d.i(1, 3))
    if k == "nul":
        i = d.i(0, len(src))
        return src[:i] + "\0" + src[i:]
    if k == "hotline":
        i = d.i(0, len(lines))
        pre = "".join(d.pick(CONTAINER_PREFIXES) for _ in range(d.i(0, 2)))
        ln = pre + d.pick(LEAVES)
        if not tabs:
            ln = ln.replace("\t", "  ")
        return "\n".join(lines[:i] + [ln] + lines[i:])
    return src


def block_doc_d(d: D, tabs: bool = True, maxdepth: int = 3, final_newline: bool | None = None, perturbed: bool = True) -> str:
    lines = block_seq(d, 0, maxdepth, tabs)
    src = "\n".join(lines) + "\n"
    if perturbed:
        src = perturb(d, src, tabs)
    if final_newline is True and not src.endswith("\n"):
        src += "\n"
    if final_newline is False:
        src = src.rstrip("\n")
    if not tabs:
        src = src.replace("\t", "  ")
    return src


def leaves_doc_d(d: D, tabs: bool = True, max_lines: int = 7) -> str:
    """Line soup: container prefixes x tricky leaves (the shape that finds boundary crashes)."""
    n = d.i(0, max_lines)
    lines = []
    for _ in range(n):
        k = d.pick([0, 0, 1, 1, 2, 3])
        pre = "".join(d.pick(CONTAINER_PREFIXES) for _ in range(k))
        leaf = d.pick(LEAVES)
        if d.chance(0.2):
            leaf = leaf + " " + d.pick(LEAVES)
        lines.append(pre + leaf)
    s = "\n".join(lines)
    if d.chance(0.7) and s:
        s += "\n"
    if not tabs:
        s = s.replace("\t", "  ")
    return s


def corpus_doc_d(d: D, tabs: bool = True) -> str:
    a = d.pick(CORPUS)
    k = d.i(0, 3)
    if k == 1:
        b = d.pick(CORPUS)
        la, lb = a.split("\n"), b.split("\n")
        a = "\n".join(la[: d.i(0, len(la))] + lb[d.i(0, len(lb)) :])
    elif k == 2:
        a = a + d.pick(["", "\n"]) + d.pick(CORPUS)
    elif k == 3:
        # wrap in a container
        p = d.pick(["> ", "- ", "  ", "1. ", ">", "    "])
        cont = " " * len(p) if p.strip() in ("-", "1.") else p
        ls = a.split("\n")
        a = "\n".join((p if i == 0 else cont) + x for i, x in enumerate(ls))
    a = perturb(d, a, tabs)
    if not tabs:
        a = a.replace("\t", "  ")
    return a


def soup_d(d: D) -> str:
    n = d.i(0, 40)
    out = []
    for _ in range(n):
        k = d.i(0, 9)
        if k < 6:
            out.append(d.pick(HOT))
        elif k < 9:
            out.append(d.pick(WORDS))
        else:
            out.append(d.unichar())
    return "".join(out)


SURROGATE_RATE = 0.02  # share of documents that get surrogate code points inserted ("every Python string")
SURROGATES = ["\ud800", "\udc00", "\udc00\ud800", "\ud83d", "\ude00", "\udfff\udbff"]
# a high surrogate directly followed by a low one makes the URL-encoding dependency raise (stated in C01's quantifier, and
# excluded there): that one shape is kept out of the general generators (C05 generates it on purpose)
_SPLIT_PAIR = re.compile("([\ud800-\udbff])([\udc00-\udfff])")


FORMAT_PREFIXES = ["\ufeff", "\ufeff", "\u200b", "\u2060", "\u00ad", "\u200e", "\ufffe", "\u180e"]


def any_doc_d(d: D, tabs: bool = True, maxdepth: int = 3) -> str:
    s = _any_doc_d(d, tabs, maxdepth)
    if d.chance(0.02):
        # a byte order mark or another invisible format character as the very first character of the input
        s = d.pick(FORMAT_PREFIXES) + s
    if SURROGATE_RATE and d.chance(SURROGATE_RATE):
        for _ in range(d.i(1, 3)):
            i = d.i(0, len(s))
            s = s[:i] + d.pick(SURROGATES) + s[i:]
        while _SPLIT_PAIR.search(s):
            s = _SPLIT_PAIR.sub(r"\2\1", s)
    return s


def _any_doc_d(d: D, tabs: bool = True, maxdepth: int = 3) -> str:
    k = d.weighted([(42, "block"), (20, "corpus"), (13, "leaves"), (10, "soup"), (5, "inline"), (7, "delims"), (3, "unicode")])
    if k == "delims":
        body = delim_soup(d) if d.chance(0.4) else "".join(tight_nest(d) + d.pick(["", " "]) for _ in range(d.i(1, 3)))
        return d.pick(["", "", "> ", "- ", "# "]) + body + d.pick(["", "\n", "\n\n[r]: /u\n"])
    if k == "block":
        return block_doc_d(d, tabs, maxdepth)
    if k == "corpus":
        return corpus_doc_d(d, tabs)
    if k == "leaves":
        return leaves_doc_d(d, tabs)
    if k == "soup":
        s = soup_d(d)
        return s if tabs else s.replace("\t", " ")
    if k == "inline":
        return inline(d, 0, False, 8)
    s = d.draw(st.text(st.characters(exclude_categories=["Cs"]), max_size=60))
    return s if tabs else s.replace("\t", " ")


@st.composite
def any_doc(draw, tabs: bool = True, maxdepth: int = 3):
    return any_doc_d(D(draw), tabs, maxdepth)


@st.composite
def block_doc(draw, tabs: bool = True, maxdepth: int = 3, final_newline=None, perturbed=True):
    return block_doc_d(D(draw), tabs, maxdepth, final_newline, perturbed)


# --------------------------------------------------------------------------------------------
# configurations

LANG_PREFIXES = ["", "lang-", "language-", "\"<&>", "x y", "é-"]
QUOTES = [
    "“”‘’", "«»„“", ["«\u00a0", "\u00a0»", "‹\u00a0", "\u00a0›"], ["<<", ">>", "<", ">"], ["", "", "", ""],
    "\"\"''", ['"x', 'y"', "'z", "w'"], "'\"\"'", "&<>\"", ["&amp;", "<b>", "\"", "'"], "abcd",
]


def config_d(d: D, html: bool | None = None, allow_linkify: bool = True, bare_bias: float = 0.25) -> dict:
    preset = d.weighted([(4, "commonmark"), (4, "js-default"), (2, "zero"), (1, "default")])
    opts: dict = {}
    en: list[str] = []
    dis: list[str] = []
    linkify = False
    if not d.chance(bare_bias):
        for k in ["html", "typographer", "breaks", "xhtmlOut", "inline_definitions", "store_labels"]:
            if d.chance(0.3):
                opts[k] = d.chance(0.5)
        if d.chance(0.25):
            opts["maxNesting"] = d.pick([1, 2, 3, 5, 20, 100, 4, 50])
        if d.chance(0.2):
            opts["langPrefix"] = d.pick(LANG_PREFIXES)
        if d.chance(0.25):
            opts["quotes"] = d.pick(QUOTES)
        mode = d.i(0, 3)
        if mode == 1:  # few switches
            for _ in range(d.i(1, 3)):
                (en if d.chance(0.5) else dis).append(d.pick(C.ALL_OPT))
        elif mode == 2:  # random subset
            for r in C.ALL_OPT:
                j = d.i(0, 9)
                if j < 3:
                    en.append(r)
                elif j < 5:
                    dis.append(r)
        elif mode == 3 and preset == "zero":
            en = [r for r in C.ALL_OPT if d.chance(0.5)]
        dis = [r for r in dis if r not in en]
        if allow_linkify and d.chance(0.2):
            linkify = True
    if html is not None:
        opts["html"] = html
    return {"preset": preset, "options": opts, "enable": en, "disable": dis, "linkify": linkify, "late": d.chance(0.25)}


def maybe_late(d: D, cfg: dict, p: float = 0.25) -> dict:
    """A copy of cfg that is, with probability p, applied to an instance that was already used (see cfg.build)."""
    return dict(cfg, late=True) if d.chance(p) else cfg


@st.composite
def config(draw, html=None, allow_linkify=True):
    return config_d(D(draw), html, allow_linkify)

"""Generic driver: replay saved regressions, enumerate, run Hypothesis shards, collect every
failing case under a signature, minimise one representative per signature, write replay files,
apply the known-findings list, write evidence.

A property module provides

    ID, LEVEL, RULE, ASSUMPTIONS
    budget(tier) -> {"examples": int, ...}
    strategy(tier) -> hypothesis strategy producing a JSON-serialisable case
    check(case) -> Res
    SHRINK = {"text": [paths], "list": [paths], "keys": [paths]}        (optional)
    enumerate_cases(tier, shard, nshards) -> iterator of cases          (optional)
    extra_phase(tier, seed, coll)                                       (optional)

Exit codes: 0 held on everything explored, 1 violation (with VIOLATION lines), 2 harness error
or inconclusive.  A run is a function of (tree, VERIF_SEED, tier).
"""
from __future__ import annotations

import copy
import hashlib
import importlib
import json
import multiprocessing as mp
import os
import re
import signal
import sys
import time
import traceback
from collections import Counter
from typing import Any, Callable

from . import boot

NSHARDS = int(os.environ.get("VERIF_SHARDS", "16"))
CASE_TIMEOUT_S = 120.0  # only triggers a deterministic re-examination; never a verdict


class CaseTimeout(BaseException):
    pass


class HarnessError(Exception):
    pass


class Res:
    """Result of checking one case."""

    __slots__ = ("v", "nt", "cls", "note", "n", "nt_keys")

    def __init__(self) -> None:
        self.v: list[tuple[str, str]] = []
        self.nt = False
        self.cls: list[str] = []
        self.note: Any = None
        self.n = 1  # number of executions this case stands for (e.g. crash points tried)
        self.nt_keys: list | None = None  # distinct non-trivial sub-cases (hashed with the case)

    def fail(self, sig: str, detail: Any = "") -> None:
        d = detail if isinstance(detail, str) else repr(detail)
        self.v.append((sig, d[:600]))


def case_hash(case: Any) -> int:
    b = json.dumps(case, sort_keys=True, ensure_ascii=True, default=repr).encode()
    return int.from_bytes(hashlib.blake2b(b, digest_size=8).digest(), "big")


def case_size(case: Any) -> int:
    return len(json.dumps(case, ensure_ascii=True, default=repr))


def derive_seed(seed: int, pid: str, shard: int, salt: str = "") -> int:
    h = hashlib.blake2b(f"{seed}/{pid}/{shard}/{salt}".encode(), digest_size=8).digest()
    return int.from_bytes(h, "big") >> 1


def lib_frame_of(exc: BaseException) -> tuple[str, str] | None:
    """Return (file:function) of the innermost markdown_it frame if the exception is the
    library's (walking outward from the raise point, a library frame is met before a harness
    frame); None if it was raised by harness code."""
    root = boot.lib_root()
    tb = traceback.extract_tb(exc.__traceback__)
    for fr in reversed(tb):
        fn = os.path.realpath(fr.filename)
        if fn.startswith(root):
            return (fn[len(root) + 1 :], fr.name)
        if fn.startswith(boot.VERIF):
            return None
    return None


# --------------------------------------------------------------------------------------------
# collector


class Collector:
    def __init__(self, mod) -> None:
        self.mod = mod
        self.evaluations = 0
        self.nontrivial: set[int] = set()
        self.classes: Counter = Counter()
        self.samples: list[Any] = []
        self._sample_kinds: dict[str, int] = {}
        self.failures: dict[str, dict[str, Any]] = {}
        self.timeouts: list[Any] = []
        self.harness_errors: list[str] = []
        self.extra: dict[str, Any] = {}

    def run_case(self, case: Any, phase: str = "gen") -> Res | None:
        self.evaluations += 1
        res = self._run_case(case, phase)
        if res is not None and res.n > 1:
            self.evaluations += res.n - 1
        return res

    def _run_case(self, case: Any, phase: str = "gen") -> Res | None:
        signal.setitimer(signal.ITIMER_REAL, getattr(self.mod, "CASE_TIMEOUT_S", CASE_TIMEOUT_S))
        try:
            res = self.mod.check(case)
        except CaseTimeout:
            self.classes["case_timeout(non-verdict)"] += 1
            if len(self.timeouts) < 5:
                self.timeouts.append(case)
            return None
        except RecursionError as e:
            self.classes["lib_exception:RecursionError(non-verdict here; C01 decides)"] += 1
            return None
        except Exception as e:  # noqa: BLE001
            fr = lib_frame_of(e)
            if fr is None:
                msg = "".join(traceback.format_exception(e))[-3000:]
                if len(self.harness_errors) < 3:
                    self.harness_errors.append(msg + "\ncase=" + json.dumps(case, default=repr)[:2000])
                return None
            self.classes[f"lib_exception:{type(e).__name__}(non-verdict here; C01 decides)"] += 1
            return None
        finally:
            signal.setitimer(signal.ITIMER_REAL, 0)
        for c in res.cls:
            self.classes[c] += 1
        if res.nt_keys:
            h0 = case_hash(case)
            for kx in res.nt_keys:
                self.nontrivial.add(hash((h0, kx)) & 0xFFFFFFFFFFFFFFFF)
        if res.nt:
            h = case_hash(case)
            if h not in self.nontrivial:
                self.nontrivial.add(h)
                k = res.cls[0] if res.cls else phase
                if self._sample_kinds.get(k, 0) < 2 and len(self.samples) < 12:
                    self._sample_kinds[k] = self._sample_kinds.get(k, 0) + 1
                    self.samples.append(case)
        for sig, detail in res.v:
            f = self.failures.get(sig)
            sz = case_size(case)
            if f is None:
                self.failures[sig] = {"count": 1, "case": case, "detail": detail, "size": sz, "phase": phase}
            else:
                f["count"] += 1
                if sz < f["size"]:
                    f.update(case=case, detail=detail, size=sz, phase=phase)
        return res

    def export(self) -> dict[str, Any]:
        return {
            "evaluations": self.evaluations,
            "nontrivial": self.nontrivial,
            "classes": self.classes,
            "samples": self.samples,
            "failures": self.failures,
            "timeouts": self.timeouts,
            "harness_errors": self.harness_errors,
            "extra": self.extra,
        }


def merge(parts: list[dict[str, Any]]) -> dict[str, Any]:
    out = {
        "evaluations": 0, "nontrivial": set(), "classes": Counter(), "samples": [], "failures": {},
        "timeouts": [], "harness_errors": [], "extra": {},
    }
    for p in parts:
        out["evaluations"] += p["evaluations"]
        out["nontrivial"] |= p["nontrivial"]
        out["classes"].update(p["classes"])
        out["samples"] += p["samples"]
        out["timeouts"] += p["timeouts"]
        out["harness_errors"] += p["harness_errors"]
        for k, v in p.get("extra", {}).items():
            if isinstance(v, (int, float)):
                out["extra"][k] = out["extra"].get(k, 0) + v
            elif isinstance(v, list):
                out["extra"].setdefault(k, [])
                out["extra"][k] += v
            elif isinstance(v, dict):
                out["extra"].setdefault(k, {}).update(v)
            else:
                out["extra"][k] = v
        for sig, f in p["failures"].items():
            g = out["failures"].get(sig)
            if g is None:
                out["failures"][sig] = dict(f)
            else:
                g["count"] += f["count"]
                if f["size"] < g["size"]:
                    g.update(case=f["case"], detail=f["detail"], size=f["size"], phase=f["phase"])
    return out


# --------------------------------------------------------------------------------------------
# shard worker


def _install_alarm() -> None:
    def on_alarm(signum, frame):  # noqa: ARG001
        raise CaseTimeout()

    signal.signal(signal.SIGALRM, on_alarm)


def _shard(args) -> dict[str, Any]:
    modname, tier, seed, shard, nshards = args
    try:
        from hypothesis import HealthCheck, Phase, given, settings
        from hypothesis import seed as hseed

        mod = importlib.import_module(modname)
        _install_alarm()
        coll = Collector(mod)
        # enumeration slice
        if hasattr(mod, "enumerate_cases"):
            for case in mod.enumerate_cases(tier, shard, nshards):
                coll.run_case(case, "enum")
        bud = mod.budget(tier)
        n = int(bud.get("examples", 0) * float(os.environ.get("VERIF_EXAMPLES_SCALE", "1")))  # scale: development smoke tests only
        per = (n + nshards - 1) // nshards
        if per > 0:
            strat = mod.strategy(tier)

            @hseed(derive_seed(seed, mod.ID, shard))
            @settings(
                max_examples=per,
                database=None,
                deadline=None,
                derandomize=False,
                phases=[Phase.generate],
                suppress_health_check=list(HealthCheck),
                report_multiple_bugs=False,
            )
            @given(strat)
            def prop(case):
                coll.run_case(case, "gen")

            prop()
        if hasattr(mod, "extra_phase"):
            mod.extra_phase(tier, seed, shard, nshards, coll)
        return coll.export()
    except BaseException as e:  # noqa: BLE001
        return {
            "evaluations": 0, "nontrivial": set(), "classes": Counter(), "samples": [], "failures": {},
            "timeouts": [], "extra": {},
            "harness_errors": ["shard %d: %s" % (shard, "".join(traceback.format_exception(e))[-3000:])],
        }


# --------------------------------------------------------------------------------------------
# shrinking (deterministic delta debugging, bounded by evaluation count)


def ddmin(items: list, test: Callable[[list], bool], budget: list[int]) -> list:
    n = 2
    while len(items) >= 1 and budget[0] > 0:
        if len(items) == 1:
            budget[0] -= 1
            if test([]):
                return []
            return items
        chunk = max(1, len(items) // n)
        reduced = False
        i = 0
        while i < len(items) and budget[0] > 0:
            cand = items[:i] + items[i + chunk :]
            budget[0] -= 1
            if test(cand):
                items = cand
                n = max(n - 1, 2)
                reduced = True
            else:
                i += chunk
        if not reduced:
            if chunk == 1:
                break
            n = min(len(items), n * 2)
    return items


def _get(case, path):
    cur = case
    for p in path.split("."):
        if cur is None:
            return None
        cur = cur.get(p) if isinstance(cur, dict) else None
    return cur


def _set(case, path, val):
    cur = case
    ps = path.split(".")
    for p in ps[:-1]:
        cur = cur[p]
    cur[ps[-1]] = val


def shrink_case(mod, case, sig: str, max_evals: int) -> Any:
    spec = getattr(mod, "SHRINK", {"text": ["src"]})
    budget = [max_evals]
    best = copy.deepcopy(case)
    # expensive cases (documents at scale): bound the minimisation to about a minute of evaluations; the
    # verdict never depends on how far a case was minimised
    _t0 = time.time()
    try:
        mod.check(best)
    except BaseException:  # noqa: BLE001
        pass
    _dt = time.time() - _t0
    if _dt > 0.15:
        budget[0] = max(3, min(max_evals, int(60 / _dt)))

    def still(c) -> bool:
        signal.setitimer(signal.ITIMER_REAL, CASE_TIMEOUT_S)
        try:
            r = mod.check(c)
            return any(s == sig for s, _ in r.v)
        except BaseException:  # noqa: BLE001
            return False
        finally:
            signal.setitimer(signal.ITIMER_REAL, 0)

    for _round in range(2):
        for path in spec.get("keys", []):
            d = _get(best, path)
            if isinstance(d, dict) and d:
                keys = list(d)

                def t(ks, path=path, d=d):
                    c = copy.deepcopy(best)
                    _set(c, path, {k: d[k] for k in ks})
                    return still(c)

                ks = ddmin(keys, t, budget)
                _set(best, path, {k: d[k] for k in ks})
        for path in spec.get("list", []):
            lst = _get(best, path)
            if isinstance(lst, list) and lst:

                def t(xs, path=path):
                    c = copy.deepcopy(best)
                    _set(c, path, xs)
                    return still(c)

                _set(best, path, ddmin(list(lst), t, budget))
        for path in spec.get("text", []):
            s = _get(best, path)
            if isinstance(s, str) and s:
                lines = s.split("\n")

                def tl(ls, path=path):
                    c = copy.deepcopy(best)
                    _set(c, path, "\n".join(ls))
                    return still(c)

                if len(lines) > 1:
                    lines = ddmin(lines, tl, budget)
                    s = "\n".join(lines)
                    _set(best, path, s)

                def tc(cs, path=path):
                    c = copy.deepcopy(best)
                    _set(c, path, "".join(cs))
                    return still(c)

                s = "".join(ddmin(list(s), tc, budget))
                _set(best, path, s)
        if budget[0] <= 0:
            break
    return best


# --------------------------------------------------------------------------------------------
# known findings


def load_known(pid: str) -> list[dict[str, Any]]:
    path = os.path.join(boot.VERIF, "known_findings.json")
    if not os.path.exists(path):
        return []
    data = json.load(open(path, encoding="utf-8"))
    return [e for e in data.get("findings", []) if e.get("property") == pid and e.get("status") == "open"]


def match_known(known: list[dict[str, Any]], sig: str, case: Any) -> dict[str, Any] | None:
    for e in known:
        if re.fullmatch(e["signature"], sig):
            cm = e.get("case_regex")
            if cm and not re.search(cm, json.dumps(case, ensure_ascii=True, default=repr)):
                continue
            return e
    return None


# --------------------------------------------------------------------------------------------
# main entry


_SURR = re.compile("[\ud800-\udfff]")


def enc_case(o: Any) -> Any:
    """JSON cannot keep a high surrogate followed by a low one apart from the character they would denote as a UTF-16
    pair: strings holding surrogate code points are stored as UTF-16 code units in hex."""
    if isinstance(o, str):
        return {"__utf16le_hex__": o.encode("utf-16-le", "surrogatepass").hex()} if _SURR.search(o) else o
    if isinstance(o, list):
        return [enc_case(x) for x in o]
    if isinstance(o, dict):
        return {k: enc_case(v) for k, v in o.items()}
    return o


def dec_case(o: Any) -> Any:
    if isinstance(o, dict):
        if set(o) == {"__utf16le_hex__"}:
            b = bytes.fromhex(o["__utf16le_hex__"])
            return "".join(chr(int.from_bytes(b[i : i + 2], "little")) for i in range(0, len(b), 2))
        return {k: dec_case(v) for k, v in o.items()}
    if isinstance(o, list):
        return [dec_case(x) for x in o]
    return o


def write_replay(mod, sig: str, detail: str, case: Any, tier: str, seed: int) -> str:
    d = os.path.join(boot.VERIF, "replays")
    os.makedirs(d, exist_ok=True)
    h = hashlib.blake2b((sig + json.dumps(case, sort_keys=True, default=repr)).encode(), digest_size=5).hexdigest()
    path = os.path.join(d, f"{mod.ID}-{h}.json")
    with open(path, "w", encoding="utf-8") as f:
        json.dump(
            {"property": mod.ID, "signature": sig, "detail": detail, "case": enc_case(case), "tier": tier, "seed": seed},
            f, ensure_ascii=True, indent=1, default=repr,
        )
    return os.path.relpath(path, boot.VERIF)


def regressions(mod) -> list[Any]:
    d = os.path.join(boot.VERIF, "corpus", "regress", mod.ID)
    out = []
    if os.path.isdir(d):
        for fn in sorted(os.listdir(d)):
            if fn.endswith(".json"):
                data = json.load(open(os.path.join(d, fn), encoding="utf-8"))
                out.append(dec_case(data["case"] if isinstance(data, dict) and "case" in data else data))
    return out


def run(modname: str, tier: str, seed: int) -> int:
    t0 = time.time()
    mod = importlib.import_module(modname)
    _install_alarm()
    known = load_known(mod.ID)
    # phase 0: saved regressions, in-process
    coll0 = Collector(mod)
    regs = regressions(mod)
    for case in regs:
        coll0.run_case(case, "regress")
    parts = [coll0.export()]
    # phase 1: shards
    if hasattr(mod, "custom_run"):
        parts.append(mod.custom_run(tier, seed))
    else:
        nsh = NSHARDS
        ctx = mp.get_context("fork")
        with ctx.Pool(nsh) as pool:
            it = pool.imap_unordered(_shard, [(modname, tier, seed, i, nsh) for i in range(nsh)])
            limit = float(os.environ.get("VERIF_SHARD_TIMEOUT", "3600" if tier == "quick" else "43200"))
            try:
                for _ in range(nsh):
                    remaining = limit - (time.time() - t0)
                    parts.append(it.next(timeout=max(1.0, remaining)))
            except mp.TimeoutError:
                pool.terminate()
                print(f"HARNESS-ERROR property={mod.ID}: shard exceeded the wall-clock safety limit ({limit}s); inconclusive")
                return 2
    tot = merge(parts)
    if tot["harness_errors"]:
        print(f"HARNESS-ERROR property={mod.ID}")
        for m in tot["harness_errors"][:3]:
            print(m)
        return 2
    # deterministic re-examination of cases that hit the wall-clock guard
    if tot["timeouts"] and hasattr(mod, "confirm_hang"):
        for case in tot["timeouts"][:5]:
            v = mod.confirm_hang(case)
            if v:
                tot["failures"].setdefault(v[0], {"count": 1, "case": case, "detail": v[1], "size": case_size(case), "phase": "hang"})
    # phase 2: triage failures
    new_violations = []
    known_hits: dict[str, int] = {}
    shrink_evals = int(os.environ.get("VERIF_SHRINK_EVALS", "400" if tier == "quick" else "3000"))
    for sig in sorted(tot["failures"]):
        f = tot["failures"][sig]
        k = match_known(known, sig, f["case"])
        if k is not None:
            known_hits[k["id"]] = known_hits.get(k["id"], 0) + f["count"]
            continue
        case = f["case"]
        if not getattr(mod, "NO_SHRINK", False):
            try:
                case = shrink_case(mod, case, sig, shrink_evals)
            except Exception:  # noqa: BLE001
                case = f["case"]
        detail = f["detail"]
        try:
            r = mod.check(case)
            for s, dt in r.v:
                if s == sig:
                    detail = dt
        except BaseException:  # noqa: BLE001
            pass
        path = write_replay(mod, sig, detail, case, tier, seed)
        new_violations.append((sig, path, f["count"], detail))
    for e in known:
        if e["id"] in known_hits:
            print(f"KNOWN-FINDING: property={mod.ID} {e['what']} (hits this run: {known_hits[e['id']]})")
    for sig, path, cnt, detail in new_violations:
        print(f"VIOLATION property={mod.ID} replay={path}")
        print(f"  signature: {sig}   failing cases this run: {cnt}")
        print(f"  detail: {detail[:400]}")
    wall = time.time() - t0
    classes = dict(sorted(tot["classes"].items(), key=lambda kv: -kv[1])[:60])
    bud = mod.budget(tier)
    cov = {
        "evaluations": tot["evaluations"],
        "distinct_nontrivial": len(tot["nontrivial"]),
        "rule": mod.RULE,
        "samples": pick_samples(tot["samples"]),
        "classes": classes,
        "regressions_replayed": len(regs),
        "budget": bud,
        "known_findings_hit": known_hits,
        "distinct_failure_signatures": len(tot["failures"]),
        "exhaustive": False,
    }
    for k2, v2 in tot["extra"].items():
        cov[k2] = v2
    if hasattr(mod, "evidence_extra"):
        cov.update(mod.evidence_extra(tier, tot))
    ev = {
        "property_id": mod.ID,
        "tier": tier,
        "seed": seed,
        "level": mod.LEVEL,
        "coverage": cov,
        "assumptions": list(getattr(mod, "ASSUMPTIONS", [])),
        "wall_s": round(wall, 2),
        "violations": len(new_violations),
    }
    # evidence describes runs against the repository itself; a run against a scratch copy (sensitivity tests with
    # VERIF_REPO pointing elsewhere) must not overwrite it
    evdir = "evidence" if os.path.realpath(boot.REPO) == os.path.realpath("/repo") else os.path.join("replays", "scratch-evidence")
    os.makedirs(os.path.join(boot.VERIF, evdir), exist_ok=True)
    with open(os.path.join(boot.VERIF, evdir, f"{mod.ID}.json"), "w", encoding="utf-8") as f:
        json.dump(ev, f, ensure_ascii=True, indent=1, default=repr)
    print(
        f"{mod.ID} tier={tier} seed={seed} evaluations={tot['evaluations']} distinct_nontrivial={len(tot['nontrivial'])} "
        f"violations={len(new_violations)} known={sum(known_hits.values())} wall={wall:.1f}s"
    )
    return 1 if new_violations else 0


def pick_samples(samples: list, n: int = 8) -> list:
    """A few samples, spread over the case kinds present."""
    by: dict[str, list] = {}
    for c in samples:
        k = str(c.get("kind")) if isinstance(c, dict) else "case"
        by.setdefault(k, []).append(c)
    out = []
    while len(out) < n and any(by.values()):
        for k in sorted(by):
            if by[k] and len(out) < n:
                out.append(by[k].pop(0))
    return out


def replay(modname: str, path: str) -> int:
    mod = importlib.import_module(modname)
    _install_alarm()
    data = json.load(open(path, encoding="utf-8"))
    case = dec_case(data["case"] if isinstance(data, dict) and "case" in data else data)
    known = load_known(mod.ID)
    try:
        res = mod.check(case)
    except Exception as e:  # noqa: BLE001
        fr = lib_frame_of(e)
        if fr is None:
            print("HARNESS-ERROR", "".join(traceback.format_exception(e)))
            return 2
        print(f"library exception during replay (non-verdict for {mod.ID}): {type(e).__name__}: {e}")
        return 0
    bad = 0
    for sig, detail in res.v:
        k = match_known(known, sig, case)
        if k is not None:
            print(f"KNOWN-FINDING: property={mod.ID} {k['what']}")
            continue
        bad += 1
        print(f"VIOLATION property={mod.ID} replay={path}")
        print(f"  signature: {sig}\n  detail: {detail}")
    if not bad:
        print(f"{mod.ID} replay {path}: no violation")
    return 1 if bad else 0

"""Coverage-guided byte-level fuzz target (atheris / libFuzzer) with the semantic oracles inside.

usage (spawned by the thorough tier of C01/C02/C04):
    python -m vlib.atheris_target <ID> <outdir> <corpusdir> [libFuzzer flags ...]

The bytes are decoded into structured arguments (configuration index + Unicode text without
surrogates), the case is checked by the property module's own ``check``; violations do not crash the
fuzzer: they are written to <outdir>/finding-<hash>.json keyed by signature and the campaign goes on
behind them.  Execution count is written to <outdir>/stats.json.  The verdict is always taken by
re-checking the saved case in the parent (the saved failing input is the reproducible unit).
"""
from __future__ import annotations

import atexit
import hashlib
import json
import os
import sys


def main() -> None:
    here = os.path.dirname(os.path.dirname(os.path.abspath(__file__)))
    sys.path.insert(0, here)
    from vlib import boot

    boot.bootstrap(reexec=False)
    import atheris

    pid, outdir, corpus = sys.argv[1], sys.argv[2], sys.argv[3]
    flags = sys.argv[4:]
    os.makedirs(outdir, exist_ok=True)
    # instrument the library (it is imported by bootstrap already: re-import under instrumentation)
    for name in [m for m in sys.modules if m == "markdown_it" or m.startswith("markdown_it.")]:
        del sys.modules[name]
    with atheris.instrument_imports(include=["markdown_it"]):
        import markdown_it  # noqa: F401
        import markdown_it.tree  # noqa: F401

    import importlib

    from vlib import cfg as C

    mod = importlib.import_module("vlib.props." + pid.lower())
    cfgs = [
        C.simple("commonmark"), C.simple("js-default"), C.simple("zero", enable=["blockquote", "table", "list"]),
        C.simple("js-default", html=True, typographer=True), C.simple("commonmark", enable=["table", "strikethrough"], html=False),
        C.simple("js-default", linkify=True), C.simple("commonmark", disable=["code"], enable=["table"], inline_definitions=True, store_labels=True),
        C.simple("js-default", maxNesting=3, breaks=True, xhtmlOut=True),
    ]
    stats = {"execs": 0, "findings": 0, "nontrivial": 0}
    seen: set[str] = set()

    def flush() -> None:
        with open(os.path.join(outdir, "stats.json"), "w") as f:
            json.dump(stats, f)

    def one(data: bytes) -> None:
        fdp = atheris.FuzzedDataProvider(data)
        ci = fdp.ConsumeIntInRange(0, len(cfgs) - 1)
        text = fdp.ConsumeUnicodeNoSurrogates(fdp.remaining_bytes())
        cfg = cfgs[ci]
        if pid == "C04":
            cfg = dict(cfg, options=dict(cfg["options"], html=False))
        case = {"kind": "doc", "src": text, "cfg": cfg, "cuts": []}
        stats["execs"] += 1
        try:
            res = mod.check(case)
        except RecursionError:
            return
        except Exception as e:  # noqa: BLE001
            from vlib.runner import lib_frame_of

            if lib_frame_of(e) is None:
                raise
            return
        if res.nt:
            stats["nontrivial"] += 1
        for sig, detail in res.v:
            if sig in seen:
                continue
            seen.add(sig)
            stats["findings"] += 1
            h = hashlib.blake2b(sig.encode(), digest_size=5).hexdigest()
            with open(os.path.join(outdir, f"finding-{h}.json"), "w") as f:
                json.dump({"signature": sig, "detail": detail, "case": case}, f)
        if stats["execs"] % 2000 == 0:
            flush()

    atexit.register(flush)
    atheris.Setup([sys.argv[0]] + flags + [corpus], one)
    try:
        atheris.Fuzz()
    finally:
        flush()


if __name__ == "__main__":
    main()

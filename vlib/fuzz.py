"""Auxiliary engine: atheris (coverage-guided) campaigns for the thorough tier of C01/C02/C04."""
from __future__ import annotations

import json
import os
import shutil
import subprocess
import sys
import tempfile

from . import boot
from .runner import derive_seed


def atheris_available() -> bool:
    try:
        if os.path.isdir(boot.DEPS) and boot.DEPS not in sys.path:
            sys.path.append(boot.DEPS)
        import atheris  # noqa: F401

        return True
    except Exception:  # noqa: BLE001
        return False


def atheris_phase(mod, tier: str, seed: int, shard: int, nshards: int, coll, seconds: int) -> None:
    """One libFuzzer process per shard; even shards start from a seed corpus of small valid documents
    (the repository's spec examples), odd shards from an empty corpus."""
    if tier != "thorough" or seconds <= 0:
        return
    if not atheris_available():
        coll.extra["atheris"] = "not installed (auxiliary engine skipped)"
        return
    from .gen import CORPUS

    work = tempfile.mkdtemp(prefix=f"atheris-{mod.ID}-{shard}-")
    try:
        out = os.path.join(work, "out")
        corpus = os.path.join(work, "corpus")
        os.makedirs(corpus)
        if shard % 2 == 0:
            for i, doc in enumerate(CORPUS[shard // 2 :: max(1, nshards // 2)][:120]):
                with open(os.path.join(corpus, f"seed{i}"), "wb") as f:
                    f.write(bytes([i % 8]) + doc.encode("utf-8"))
        env = dict(os.environ, PYTHONPATH=boot.DEPS + os.pathsep + os.environ.get("PYTHONPATH", ""), PYTHONHASHSEED="0")
        cmd = [
            sys.executable, "-m", "vlib.atheris_target", mod.ID, out, corpus,
            f"-max_total_time={seconds}", f"-seed={1 + derive_seed(seed, mod.ID, shard, 'atheris') % (2**31 - 2)}",
            "-max_len=600", "-timeout=60", "-rss_limit_mb=4096", "-print_final_stats=0", "-verbosity=0",
        ]
        p = subprocess.run(cmd, cwd=boot.VERIF, env=env, capture_output=True, text=True, timeout=seconds + 600)
        stats = {}
        sp = os.path.join(out, "stats.json")
        if os.path.exists(sp):
            stats = json.load(open(sp))
        coll.extra["atheris_execs"] = coll.extra.get("atheris_execs", 0) + int(stats.get("execs", 0))
        coll.extra["atheris_nontrivial_execs"] = coll.extra.get("atheris_nontrivial_execs", 0) + int(stats.get("nontrivial", 0))
        coll.extra["atheris_processes"] = coll.extra.get("atheris_processes", 0) + 1
        if os.path.isdir(out):
            for fn in sorted(os.listdir(out)):
                if fn.startswith("finding-"):
                    data = json.load(open(os.path.join(out, fn)))
                    coll.run_case(data["case"], "atheris")
        # libFuzzer's own crash artefacts (harness errors, timeouts): keep the tail of the log as a note
        if p.returncode not in (0,) and "finding" not in "".join(os.listdir(out) if os.path.isdir(out) else []):
            coll.extra.setdefault("atheris_notes", []).append(f"shard {shard}: exit {p.returncode}: {(p.stderr or '')[-300:]}")
    finally:
        shutil.rmtree(work, ignore_errors=True)

"""Small helpers shared by the property modules."""
from __future__ import annotations

import re
import sys
from typing import Any

from . import boot


class BudgetExceeded(BaseException):
    pass


class CallCounter:
    """Deterministic work measure: number of Python-level calls into markdown_it code."""

    def __init__(self, limit: int | None = None) -> None:
        self.n = 0
        self.limit = limit
        self.root = boot.lib_root()
        self.maxdepth = 0

    def _prof(self, frame, event, arg):  # noqa: ARG002
        if event == "call" and frame.f_code.co_filename.startswith(self.root):
            self.n += 1
            if self.limit is not None and self.n > self.limit:
                sys.setprofile(None)
                raise BudgetExceeded()

    def run(self, fn, *a, **kw):
        sys.setprofile(self._prof)
        try:
            return fn(*a, **kw)
        finally:
            sys.setprofile(None)


def normalize_src(src: str) -> str:
    """The normalisation the library documents: CRLF/CR -> LF, NUL -> U+FFFD."""
    return re.sub(r"\r\n?", "\n", src).replace("\0", "�")


def src_lines(src: str) -> list[str]:
    """Lines of the normalised input, split on LF only (never str.splitlines)."""
    s = normalize_src(src)
    if s == "":
        return []
    lines = s.split("\n")
    if s.endswith("\n"):
        lines.pop()
    return lines


def dump(tokens) -> list[dict[str, Any]]:
    return [t.as_dict() for t in tokens]


def walk_tokens(tokens):
    """Every token, recursively through children."""
    for t in tokens:
        yield t
        if t.children:
            yield from walk_tokens(t.children)


def short(x: Any, n: int = 160) -> str:
    s = x if isinstance(x, str) else repr(x)
    return s if len(s) <= n else s[:n] + "..."


def first_diff(a: list, b: list) -> str:
    """Describe the first difference between two lists of token dicts."""
    for i, (x, y) in enumerate(zip(a, b)):
        if x != y:
            if isinstance(x, dict) and isinstance(y, dict):
                keys = [k for k in x if x.get(k) != y.get(k)]
                k = keys[0] if keys else "?"
                if k == "children" and isinstance(x.get(k), list) and isinstance(y.get(k), list):
                    return f"#{i} {x.get('type')}.children: " + first_diff(x[k], y[k])
                return f"#{i} {x.get('type')}/{y.get('type')} field {k}: {short(x.get(k), 80)} != {short(y.get(k), 80)}"
            return f"#{i}: {short(x, 80)} != {short(y, 80)}"
    if len(a) != len(b):
        return f"length {len(a)} != {len(b)}"
    return "equal"

"""Configurations as plain JSON values, and how an instance is built from one.

A configuration is ``{"preset", "options", "enable", "disable", "linkify"}``; everything is
applied through the public API (constructor ``options_update``, ``enable``/``disable`` facade,
the public attribute ``md.linkify``).
"""
from __future__ import annotations

import re
from typing import Any

BLOCK_OPT = [
    "table", "code", "fence", "blockquote", "hr", "list", "reference", "html_block",
    "heading", "lheading",
]
INLINE_OPT = [
    "newline", "escape", "backticks", "strikethrough", "emphasis", "link", "image",
    "autolink", "html_inline", "entity",
]
CORE_OPT = ["replacements", "smartquotes"]
ALL_OPT = BLOCK_OPT + INLINE_OPT + CORE_OPT
# never switched off: they guarantee progress / are the pipeline itself
FIXED_RULES = {
    "core": ["normalize", "block", "inline", "text_join"],
    "block": ["paragraph"],
    "inline": ["text"],
    "inline2": ["balance_pairs", "fragments_join"],
}
PRESETS = ["commonmark", "js-default", "default", "zero"]


# --------------------------------------------------------------------------------------------
# linkifier test double (linkify-it-py is not installable offline)


class _Match:
    __slots__ = ("url", "text", "index", "last_index", "schema", "raw")

    def __init__(self, url: str, text: str, index: int, last_index: int, schema: str):
        self.url = url
        self.text = text
        self.raw = text
        self.index = index
        self.last_index = last_index
        self.schema = schema


_LINK_RE = re.compile(
    r"(?P<mail>[A-Za-z0-9._+-]+@[A-Za-z0-9-]+(?:\.[A-Za-z0-9-]+)+)"
    r"|(?<![A-Za-z0-9.+-])(?P<sch>[A-Za-z][A-Za-z0-9.+-]*:)(?P<rest>[^\s<>]{2,})"
    r"|(?<![A-Za-z0-9.-])(?P<www>www\.[^\s<>]+)"
)
_TRAIL = ".,;:!?'\")]}*_~"


class LinkifyDouble:
    """A small, well-behaved stand-in for ``linkify_it.LinkifyIt``.

    It offers the four methods the library calls.  Matches are ordered and non overlapping.
    It deliberately accepts *any* ``scheme:`` so that the library's own validators are what
    stands between the input and the output.
    """

    def pretest(self, text: str) -> bool:
        return ":" in text or "@" in text or "www." in text

    def test(self, text: str) -> bool:
        return bool(self.match(text))

    def match(self, text: str) -> list[_Match] | None:
        out: list[_Match] = []
        for m in _LINK_RE.finditer(text):
            s, e = m.span()
            while e > s and text[e - 1] in _TRAIL:
                e -= 1
            raw = text[s:e]
            if m.group("mail"):
                if e < m.end("mail"):
                    continue
                out.append(_Match("mailto:" + raw, raw, s, e, "mailto:"))
            elif m.group("sch"):
                if e - s < len(m.group("sch")) + 2:
                    continue
                out.append(_Match(raw, raw, s, e, m.group("sch").lower()))
            else:
                if e - s < 5:
                    continue
                out.append(_Match("http://" + raw, raw, s, e, ""))
        return out or None

    def match_at_start(self, text: str) -> _Match | None:
        m = re.match(r"[A-Za-z][A-Za-z0-9.+-]*://[^\s<>]+", text)
        if not m:
            return None
        e = m.end()
        while e > 0 and text[e - 1] in _TRAIL:
            e -= 1
        raw = text[:e]
        if "://" not in raw or raw.endswith("://"):
            return None
        return _Match(raw, raw, 0, e, raw.split(":", 1)[0].lower() + ":")


# --------------------------------------------------------------------------------------------


WARMUP = "# h\n\n\"q\" 'r' a  \nb\nc ![i](s) *e* [l](u) <b>x</b> (c) -- ...\n\n```py\nx\n```\n\n<div>\nh\n</div>\n\n***\n\n> > > - - q\n"
_FLIP = {
    "xhtmlOut": lambda v: not v, "breaks": lambda v: not v, "langPrefix": lambda v: "zz-", "quotes": lambda v: "«»‹›" if v != "«»‹›" else "“”‘’",
    "html": lambda v: not v, "typographer": lambda v: not v, "maxNesting": lambda v: 7 if v != 7 else 50,
}


def build(cfg: dict[str, Any]):
    """Build a MarkdownIt instance from a configuration value.

    With ``cfg["late"]`` the instance is first constructed with *other* values for the renderer-only options and
    the quotes, used once, and only then given its final option values in place (item or attribute assignment) and its
    rule switches: by C10 all routes are indistinguishable, so every check also exercises "configured after use"."""
    from markdown_it import MarkdownIt
    from markdown_it.utils import OptionsDict

    opts = dict(cfg.get("options") or {})
    preset = cfg.get("preset", "commonmark")
    if cfg.get("late"):
        final = dict(MarkdownIt(preset).options)
        final.update(opts)
        start = dict(opts)
        flips = {k: f for k, f in _FLIP.items() if k in final}  # (only options the preset defines)
        for k, f in flips.items():
            start[k] = f(final[k])
        md = MarkdownIt(preset, start)
        md.render(WARMUP)
        for i, k in enumerate(sorted(flips)):
            if i % 2 and isinstance(getattr(OptionsDict, k, None), property):
                setattr(md.options, k, final[k])
            else:
                md.options[k] = final[k]
    else:
        md = MarkdownIt(preset, opts) if opts else MarkdownIt(preset)
    if cfg.get("linkify"):
        md.linkify = LinkifyDouble()
        md.options["linkify"] = True
        md.enable("linkify")
    en = cfg.get("enable") or []
    dis = cfg.get("disable") or []
    if en:
        md.enable(list(en))
    if dis:
        md.disable(list(dis))
    return md


def simple(preset: str = "commonmark", enable=(), disable=(), linkify=False, **options):
    return {
        "preset": preset,
        "options": dict(options),
        "enable": list(enable),
        "disable": list(disable),
        "linkify": bool(linkify),
    }


def html_enabled(cfg: dict[str, Any]) -> bool:
    md = build(cfg)
    return bool(md.options.get("html"))

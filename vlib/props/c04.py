"""C04 - with raw HTML off the output is well formed and holds renderer-made markup only."""
from __future__ import annotations

import re

from hypothesis import strategies as st

from .. import cfg as C
from .. import gen
from ..runner import Res

ID = "C04"
LEVEL = "exploration"
RULE = (
    "cases = (document x configuration with html forced off), rendered with render and renderInline; documents are "
    "the general generators plus 'sink' templates that put a metacharacter-rich payload into every place input text "
    "reaches the output (fence info, alt, title, destination, code span, table cell and alignment row, label, "
    "heading, autolink, linkified URL). Oracle = strict lexer/parser for the renderer's output language. A small "
    "deterministic clause also renders two documents at once on a freshly built html-off instance under the byte-code "
    "scheduler (one pre-emption point swept over the first call) and lexes whatever each call returns. "
    "Non-trivial = the output holds an escaped metacharacter (&amp; &lt; &gt; &quot;) and at least one attribute; "
    "distinct = distinct case hash."
)
ASSUMPTIONS = ["default HTML renderer, no highlight callback (as the property states)", "test-double linkifier where linkify is on"]
SHRINK = {"text": ["src"], "list": ["cfg.enable", "cfg.disable"], "keys": ["cfg.options"]}

VOID = {"hr", "br", "img"}
ELEMENTS = {
    "p", "h1", "h2", "h3", "h4", "h5", "h6", "blockquote", "ul", "ol", "li", "pre", "code", "hr", "br", "em", "strong",
    "s", "a", "img", "table", "thead", "tbody", "tr", "th", "td",
}
ATTRS = {
    "a": {"href", "title"}, "img": {"src", "alt", "title"}, "ol": {"start"}, "code": {"class"}, "th": {"style"},
    "td": {"style"},
}
TEXT_RE = re.compile(r'(?:[^<>"&]|&(?:amp|lt|gt|quot);)+')
TAG_RE = re.compile(r'<(/?)([a-z][a-z0-9]*)((?: [a-z]+="(?:[^<>"&]|&(?:amp|lt|gt|quot);)*")*)( /)?>')
ATTR_RE = re.compile(r' ([a-z]+)="((?:[^<>"&]|&(?:amp|lt|gt|quot);)*)"')

PAYLOADS = [
    "\"><script>alert(1)</script>", "\" onclick=\"x", "' onclick='x", "<b>", "</p>", "&", "&amp;", "&lt;", "&#60;", "&#x3C;",
    "&#34;", "&quot;", "\\\"", "\\<", "\"", "<", ">", "a\"b", "a<b>c", "&#", "&x;", "<!--", "-->", "<![CDATA[", "<?",
    "\x00\"", "\"\n\"", "a b\"c", " \"", "%22", "%3C", "javascript:\"", "x\" y=\"z", "&amp;quot;", "\\&quot;", "&NewLine;\"",
]
TEMPLATES = [
    "``` {p}\nx\n```\n", "~~~ {p}\nx\n~~~\n", "~~~{p} {p}\n", "[a]({p})", "[a](<{p}>)", "[a](u \"{p}\")", "[a](u '{p}')", "[a](u ({p}))",
    "![{p}](u)", "![a]({p})", "![a](u \"{p}\")", "![![{p}](v)](u)", "`{p}`", "`` {p} ``", "# {p}\n", "{p}\n===\n", "|{p}|\n|-|\n|{p}|\n",
    "|a|\n|:{p}-|\n", "|a|b|\n|:-{p}|-:|\n|{p}|c\n", "[{p}]: u\n\n[{p}]\n", "[a]: {p}\n\n[a]\n", "[a]: u '{p}'\n\n[a]\n", "[a]: <{p}> \"{p}\"\n\n![a]\n",
    "<{p}>", "<http://{p}>", "<a@{p}.c>", "{p}", "    {p}\n", "- {p}\n", "> {p}\n", "1. {p}\n", "http://{p}", "www.{p}.com", "x@{p}.com",
    "<a href=\"{p}\">", "<!-- {p} -->", "<div {p}>\n", "*{p}*", "~~{p}~~", "\\{p}", "a  \n{p}", "\"{p}\" '{p}'", "[a][{p}]\n\n[{p}]: u\n", "7{p}. x\n",
]


def budget(tier: str) -> dict:
    return {"examples": 40000 if tier == "quick" else 1000000}


@st.composite
def _case(draw):
    d = gen.D(draw)
    k = d.i(0, 9)
    if k < 5:
        parts = []
        for _ in range(d.i(1, 3)):
            t = d.pick(TEMPLATES)
            while "{p}" in t:
                t = t.replace("{p}", d.pick(PAYLOADS), 1)
            parts.append(t)
        src = d.pick(["\n\n", "\n", " "]).join(parts)
        if d.chance(0.2):
            src = d.pick(["> ", "- ", "1. "]) + src
    elif k < 7:
        # dense delimiter/bracket nests: the 'properly nested' clause lives here
        src = "".join(gen.tight_nest(d) + d.pick(["", " "]) for _ in range(d.i(1, 3)))
        if d.chance(0.3):
            src = d.pick(["> ", "- ", "# ", "| "]) + src
    else:
        src = gen.any_doc_d(d)
    cfg = gen.config_d(d, html=False, bare_bias=0.15)
    if d.chance(0.3):
        cfg["options"]["langPrefix"] = d.pick(["\"<&>", "x\" y=\"", "<b>", "&", "&amp;", "lang-"])
    if d.chance(0.3):
        cfg["options"]["typographer"] = True
        cfg["options"]["quotes"] = d.pick(["&<>\"", ["&amp;", "<b>", "\"", "'"], ["<", ">", "\"", "&"], "“”‘’"])
    if d.chance(0.04):
        # the core 'inline' step switched off: inline containers keep their raw content, without children
        cfg["disable"] = list(cfg["disable"]) + ["inline"]
    return {"src": src, "cfg": cfg}


def strategy(tier: str):
    return _case()


def enumerate_cases(tier: str, shard: int, nshards: int):
    """The pathological families of C20 at two sizes (well-formedness must also hold at scale)."""
    from .c20 import F as FAMILIES

    import itertools

    from .c02 import NEST_ALPHABET

    idx = 0
    for k in range(1, (5 if tier == "quick" else 6) + 1):
        for combo in itertools.product(NEST_ALPHABET, repeat=k):
            idx += 1
            if idx % nshards != shard:
                continue
            yield {"src": "".join(combo), "cfg": C.simple("js-default"), "enum": True}
    # one very long string in each sink (size thresholds such as 2**16 in helpers)
    big = "a\"<&>" * 14000
    for tpl in ("[a](u \"{p}\")", "![{p}](u)", "``` {p}\nx\n```\n", "`{p}`", "{p}", "    {p}\n", "[a](<{p}>)", "# {p}\n"):
        idx += 1
        if idx % nshards == shard:
            pay = big.replace('"', '\\"') if '"{p}"' in tpl else (big.replace("<", "").replace(">", "") if "<{p}>" in tpl else big)
            yield {"src": tpl.replace("{p}", pay), "cfg": C.simple("js-default"), "enum": True}
    for name in sorted(FAMILIES):
        for nn in (40, 700) if tier == "quick" else (40, 700, 8000):
            for preset in ("js-default", "commonmark"):
                idx += 1
                if idx % nshards != shard:
                    continue
                yield {"src": FAMILIES[name](nn), "cfg": C.simple(preset, html=False, enable=["table", "strikethrough"]), "family": name}


def lex_output(out: str, xhtml: bool, res: Res, where: str, stats: dict) -> None:
    pos = 0
    n = len(out)
    stack: list[str] = []
    while pos < n:
        m = TEXT_RE.match(out, pos)
        if m:
            if "&" in m.group(0):
                stats["escaped"] = True
            pos = m.end()
            continue
        m = TAG_RE.match(out, pos)
        if not m:
            ctx = out[max(0, pos - 30) : pos + 40]
            res.fail(f"{where}:unlexable-output", f"at offset {pos}: ...{ctx!r}...")
            return
        closing, name, attrs, slash = m.group(1), m.group(2), m.group(3), m.group(4)
        if name not in ELEMENTS:
            res.fail(f"{where}:unknown-element:{name}", m.group(0))
            return
        if closing:
            if attrs or slash:
                res.fail(f"{where}:closing-tag-with-attrs", m.group(0))
            if name in VOID:
                res.fail(f"{where}:closing-void:{name}", m.group(0))
            elif not stack or stack[-1] != name:
                res.fail(f"{where}:misnested-close:{name}", f"open stack {stack[-5:]} closed by {m.group(0)}")
                return
            else:
                stack.pop()
        else:
            seen = set()
            for am in ATTR_RE.finditer(attrs):
                key, val = am.group(1), am.group(2)
                stats["attr"] = True
                if "&" in val:
                    stats["escaped"] = True
                if key not in ATTRS.get(name, ()):
                    res.fail(f"{where}:unknown-attribute:{name}.{key}", m.group(0))
                if key in seen:
                    res.fail(f"{where}:duplicate-attribute:{name}.{key}", m.group(0))
                seen.add(key)
                if key == "style" and val not in ("text-align:left", "text-align:right", "text-align:center"):
                    res.fail(f"{where}:style-value", m.group(0))
                if key == "start" and not re.fullmatch(r"\d{1,9}", val):
                    res.fail(f"{where}:start-value", m.group(0))
            if name in VOID:
                if bool(slash) != bool(xhtml):
                    res.fail(f"{where}:void-spelling:{name}", f"{m.group(0)} with xhtmlOut={xhtml}")
            else:
                if slash:
                    res.fail(f"{where}:self-closed-non-void:{name}", m.group(0))
                stack.append(name)
        pos = m.end()
    if stack:
        res.fail(f"{where}:unclosed:{stack[-1]}", f"open at end: {stack}")


CONC_DOCS = [
    ("1. a **b** `c<` [d](/u \"t<\")\n\n```x<\ny&\n```\n\n    z<\n\n---\n", "# h <i>\n\n> q & `r`\n\n- ![i<](/s \"t\") \\\nz\n"),
    ("a|b\n-|:-\n<c>|`d`\n", "~~s~~ <http://a.b/?x=\"> &amp; &lt; *e*\n"),
]
CONC_CFGS = [C.simple("js-default"), C.simple("commonmark", html=False, enable=["table", "strikethrough"], xhtmlOut=False)]
_CONC_WARM: set = set()


def concurrent_cases(tier: str, shard: int, nshards: int):
    """First use of a fresh html-off instance by two renders at once, thread 1 pre-empted after a fraction of its
    library byte-codes: whatever C13 says about the results, each output must still be renderer-made markup."""
    n = 48 if tier == "quick" else 600
    idx = 0
    for ci in range(len(CONC_CFGS)):
        for di in range(len(CONC_DOCS)):
            for i in range(n):
                idx += 1
                if idx % nshards == shard:
                    yield {"kind": "concurrent", "cfgi": ci, "docs": di, "num": i, "den": n}
            # pre-emption points inside rule management (chain compilation on first use), swept densely
            nf = 240 if tier == "quick" else 4000
            for i in range(nf):
                idx += 1
                if idx % nshards == shard:
                    yield {"kind": "concurrent", "cfgi": ci, "docs": di, "num": i, "den": nf, "focus": True}


def check_concurrent(case) -> Res:
    from .. import sched

    res = Res()
    cfg = CONC_CFGS[case["cfgi"]]
    docs = CONC_DOCS[case["docs"]]
    key = (case["cfgi"], case["docs"])
    if key not in _CONC_WARM:  # process-global lazies (regex caches ...) are not the subject: warm them on another instance
        for dd in docs:
            C.build(cfg).render(dd)
        _CONC_WARM.add(key)
    md0 = C.build(cfg)
    rec = sched.Sched([lambda: md0.render(docs[0])], [], 10**7, record_focus=True)
    _r, counts = rec.run()
    if case.get("focus"):
        if not rec.focus:
            return Res()
        k = rec.focus[min(len(rec.focus) - 1, len(rec.focus) * case["num"] // case["den"])]
    else:
        k = max(1, counts[0] * case["num"] // case["den"])
    md = C.build(cfg)
    xhtml = bool(md.options.get("xhtmlOut"))
    s = sched.Sched([lambda: md.render(docs[0]), lambda: md.render(docs[1])], [k, sched.BIG], 20 * counts[0] + 10**5)
    results, _ = s.run()
    stats: dict = {}
    res.cls.append("concurrent-first-use")
    res.nt = s.switches >= 1
    for i, r in enumerate(results):
        if r is not None and r[0] == "ok" and isinstance(r[1], str):
            lex_output(r[1], xhtml, res, f"concurrent-render-{i}", stats)
        else:
            res.cls.append("concurrent:call-did-not-return(C13 decides)")
    return res


def check(case) -> Res:
    if case.get("kind") == "concurrent":
        return check_concurrent(case)
    res = Res()
    cfg = case["cfg"]
    md = C.build(cfg)
    if md.options.get("html"):
        md.options["html"] = False
    xhtml = bool(md.options.get("xhtmlOut"))
    stats: dict = {}
    out = md.render(case["src"])
    if not isinstance(out, str):
        res.fail("render-not-str", repr(type(out)))
        return res
    lex_output(out, xhtml, res, "render", stats)
    out2 = md.renderInline(case["src"])
    lex_output(out2, xhtml, res, "renderInline", stats)
    res.nt = bool(stats.get("escaped") and stats.get("attr"))
    for k in stats:
        res.cls.append("out_" + k)
    res.cls.append("preset:" + cfg["preset"])
    if cfg["linkify"]:
        res.cls.append("linkify_double")
    if "inline" in cfg["disable"]:
        res.cls.append("core_inline_step_off")
    if cfg["options"].get("inline_definitions"):
        res.cls.append("inline_definitions")
    return res


def extra_phase(tier, seed, shard, nshards, coll):
    """thorough tier: an atheris (libFuzzer) campaign with this module's oracle inside the target."""
    for case in concurrent_cases(tier, shard, nshards):
        coll.run_case(case, "enum")
    if tier != "thorough":
        return
    from ..fuzz import atheris_phase

    atheris_phase(__import__("sys").modules[__name__], tier, seed, shard, nshards, coll, int(__import__("os").environ.get("VERIF_ATHERIS_SECONDS", "300")))

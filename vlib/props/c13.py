"""C13 - concurrent or nested parses on a shared instance do not interfere."""
from __future__ import annotations

import copy

from hypothesis import strategies as st

from .. import cfg as C
from .. import gen
from .. import sched
from ..runner import Res
from ..util import dump

ID = "C13"
LEVEL = "exploration"
RULE = (
    "cases = (documents d1,d2[,d3] x instance state in {freshly constructed, reconfigured after use, warm} x "
    "schedule). The harness owns the schedule: threads are serialised by a deterministic scheduler driven by "
    "sys.monitoring INSTRUCTION events on library code, a schedule is a list of quanta (library byte-codes run "
    "before the next thread is released). Three generators: (a) systematic single-switch sweep - thread 1 runs k "
    "instructions, thread 2 runs to completion, thread 1 resumes - for every k inside rule-management code "
    "(ruler.py; exact, stride 1 in thorough) and on a uniform grid over the rest of the call; (b) Hypothesis-"
    "generated multi-switch plans with quanta from a mixture of tiny and large values; (c) nested calls: a plugin "
    "rule (inline, block incl. terminator chains, core) or a render rule registered through the public API re-enters "
    "md.render(d2) at its k-th invocation, for k over all invocations (capped). Oracle: every call returns exactly "
    "its solo result (tokens/HTML/env); each thread has a deterministic instruction budget. Non-trivial = the "
    "schedule has a switch strictly inside both calls (or the nested call happens while the outer one is in "
    "progress) and the instance is not warm; distinct = distinct case hash."
)
ASSUMPTIONS = [
    "pre-emption is modelled between byte-codes of markdown_it code only (not inside C functions or third-party code; CPython's GIL does not switch there either, except in blocking calls the library does not make)",
    "process-global lazies (regex caches, URL-encoding tables) are warmed first: the property is about the instance",
    "configuration is not mutated concurrently (as the property states)",
]
SHRINK = {"list": ["plan"], "text": ["docs.0", "docs.1"]}
NO_SHRINK = True  # schedules are reported as found (plans are already minimal: one switch in the sweeps)

PAIRS = [
    ["*alpha [one `c` two](/a) omega* [Straße θ]: /s\n\n[Straße θ]: /s\n\nsee [Straße θ] and [again][straße ϑ].\n", "__left [x *y* z](/b) right__ [ΩMEGA É]\n\n[ωmega é]: /o 'T'\n\n**b [l](u) c**\n"],
    ["```rust x\nfn a() {}\n```\n\n![alt *text* `c` here](u) ![x](y)\n\n~~~py\nb\n~~~\n", "```c\nint b;\n```\n\n" + ">" * 19 + " deep *text* ![i](s)\n\n~~~ js z\nq\n~~~\n"],
    ["z [x `]` y](/u) [p *q* `r]`](/v) ![s [t] `]`](/w)\n", "[abcdefgh*i](/m) [a][b] ![c `d` e](f) [gh `i` jk lm](/n)\n"],
    ["# T\n\n> *a* [b](c)\n\n- x\n- y `z`\n", "1. q **w**\n\n```\nf\n```\n\nfoo\n***\nbar\n# H\nbaz\n> q\n"],
    ["[x `]` y](/u) *a _b_* ![i *j*](s)\n\n| a | b |\n|---|---|\n| 1 | 2 |\n", "- a\n  - b [l][r]\n\n[r]: /u 'T'\n\n<div>\nh\n</div>\n\n~~s~~ \"q\" -- (c)\n"],
]
# quick tier: which configurations each fixed pair is swept under (the deep-nesting pair needs commonmark's limit of 20)
PAIR_CFGS = {0: (0,), 1: (0, 1), 2: (1,), 3: (0,)}
CFGS = [C.simple("commonmark"), C.simple("js-default", typographer=True), C.simple("commonmark", enable=["table", "strikethrough"], html=False)]
STATES = ["fresh", "reconfigured", "warm"]


def budget(tier: str) -> dict:
    if tier == "quick":
        return {"examples": 1400, "grid": 160, "focus_stride": 3, "threads": 2, "nested_cap": 40}
    return {"examples": 60000, "grid": 4000, "focus_stride": 1, "threads": 3, "nested_cap": 400}


def make_instance(cfg, state: str, docs):
    md = C.build(cfg)
    if state == "warm":
        for dd in docs:
            md.render(dd)
    elif state == "reconfigured":
        md.render(docs[0])
        md.disable("emphasis")
        md.enable("emphasis")
    return md


def _call(md, how: str, doc: str):
    env: dict = {}
    if how == "parse":
        return [dump(md.parse(doc, env)), env]
    if how == "parseInline":
        return [dump(md.parseInline(doc, env)), env]
    if how == "renderInline":
        return [md.renderInline(doc, env), env]
    return [md.render(doc, env), env]


_SOLO: dict = {}
_WARMED = set()


def solo(cfg, doc: str, how: str):
    key = (repr(cfg), doc, how)
    if key not in _SOLO:
        if len(_SOLO) > 4000:
            _SOLO.clear()
        _SOLO[key] = _call(C.build(cfg), how, doc)
    return copy.deepcopy(_SOLO[key])


def recording_pass(cfg, state, docs, calls):
    """Sequential run under the scheduler: instruction counts per thread and the focus indices of thread 0."""
    md = make_instance(cfg, state, docs)
    fns = [(lambda dd=dd, h=h: _call(md, h, dd)) for dd, h in zip(docs, calls)]
    s = sched.Sched(fns, [sched.BIG], 10**8, record_focus=True)
    results, counts = s.run()
    return counts, s.focus


_REC: dict = {}


def rec(cfg, state, docs, calls):
    key = (repr(cfg), state, tuple(docs), tuple(calls))
    if key not in _REC:
        if len(_REC) > 2000:
            _REC.clear()
        _REC[key] = recording_pass(cfg, state, docs, calls)
    return _REC[key]


def enumerate_cases(tier: str, shard: int, nshards: int):
    b = budget(tier)
    idx = 0
    for pi, docs in enumerate(PAIRS):
        for ci, cfg in enumerate(CFGS[:2] if tier == "quick" else CFGS):
            if ci not in PAIR_CFGS.get(pi, (pi % 2,)) and tier == "quick":
                continue
            for state, calls in (("fresh", ["render", "render"]), ("reconfigured", ["render", "render"]), ("fresh", ["renderInline", "render"]), ("fresh", ["render", "renderInline"])):
                counts, focus = rec(cfg, state, docs, calls)
                n0 = counts[0]
                ks = set(focus[:: b["focus_stride"]])
                ks.update(1 + (j * n0) // b["grid"] for j in range(b["grid"]))
                for k in sorted(ks):
                    idx += 1
                    if idx % nshards != shard:
                        continue
                    yield {"kind": "threads", "docs": docs, "calls": calls, "cfg": cfg, "state": state, "plan": [k, sched.BIG], "origin": "sweep"}
                # round robin with a fixed quantum: many switches, calls overlap in non-LIFO order
                for q in (2, 3, 5, 7, 11, 20, 37, 50, 97, 150, 400, 1000, 2500):
                    for off in (0, q // 2):
                        idx += 1
                        if idx % nshards != shard:
                            continue
                        plan = ([off] if off else []) + [q] * (2 * (max(counts) // q) + 8)
                        yield {"kind": "threads", "docs": docs, "calls": calls, "cfg": cfg, "state": state, "plan": plan[:6000], "origin": "round-robin"}
    # history ramp: every step parses documents whose destinations, labels and words are new to the process (so any
    # size-bounded module-level memo moves towards and across its bound) and sweeps the pre-emption points of call 1
    # that lie in code able to mutate a module-level container - nothing to sweep when the library has no such code
    for ci in range(2):
        idx += 1
        if idx % nshards == shard:
            yield {"kind": "ramp", "cfgi": ci, "steps": 80 if tier == "quick" else 700, "salt": f"{tier[0]}{ci}"}
    # nested re-entrancy sweeps
    for pi, docs in enumerate(PAIRS):
        cfg = CFGS[pi % len(CFGS)]
        for site in ("inline", "block", "core", "render", "highlight"):
            n = count_invocations(cfg, docs[0], site)
            cap = b["nested_cap"]
            ks = list(range(1, n + 1))
            if len(ks) > cap:
                step = len(ks) / cap
                ks = sorted({ks[int(i * step)] for i in range(cap)})
            for k in ks:
                for state in ("fresh", "warm"):
                    idx += 1
                    if idx % nshards != shard:
                        continue
                    yield {"kind": "nested", "docs": docs, "cfg": cfg, "state": state, "site": site, "k": k, "origin": "sweep"}
                if site in ("inline", "core", "render") and k % 3 == 1:
                    idx += 1
                    if idx % nshards == shard:
                        yield {"kind": "nested", "docs": docs, "cfg": cfg, "state": "fresh", "site": site, "k": k, "origin": "sweep", "outer": "renderInline"}


@st.composite
def _case(draw, nthreads: int):
    d = gen.D(draw)
    nt = 2 if nthreads == 2 or d.chance(0.5) else 3
    docs = []
    for _ in range(nt):
        k = d.i(0, 9)
        if k < 3:
            docs.append(gen.inline(d, 0, False, 6) + "\n")
        elif k < 7:
            docs.append("".join(gen.tight_nest(d) + d.pick(["", " "]) for _ in range(d.i(1, 3))) + "\n")
        else:
            docs.append(gen.block_doc_d(d, tabs=False, maxdepth=2, perturbed=False))
    cfg = d.pick(CFGS)
    if d.chance(0.35):
        site = d.pick(["inline", "block", "core", "render", "highlight"])
        if site == "highlight":
            docs = [dd + d.pick(["\n```py\nx\n```\n", "\n~~~ c z\ny\n~~~\n"]) for dd in docs]
        return {"kind": "nested", "docs": docs[:2], "cfg": cfg, "state": d.pick(["fresh", "warm", "reconfigured"]), "site": site, "k": d.i(1, 12) if d.chance(0.6) else d.i(1, 80), "origin": "generated"}
    state = d.pick(STATES)
    plan = []
    for _ in range(d.i(1, 8)):
        plan.append(d.i(1, 50) if d.chance(0.45) else d.i(51, 6000))
    calls = [d.pick(["render", "render", "parse", "renderInline", "parseInline"]) for _ in docs]
    return {"kind": "threads", "docs": docs, "calls": calls, "cfg": cfg, "state": state, "plan": plan, "origin": "generated"}


def strategy(tier: str):
    return _case(budget(tier)["threads"])


# --------------------------------------------------------------------------------------------
# nested (re-entrant) calls


class _Reenter:
    def __init__(self, md, doc2: str, k: int):
        self.md = md
        self.doc2 = doc2
        self.k = k
        self.n = 0
        self.inner = None
        self.depth = 0

    def hit(self):
        if self.depth:
            return
        self.n += 1
        if self.n == self.k:
            self.depth += 1
            try:
                env: dict = {}
                self.inner = [self.md.render(self.doc2, env), env]
            finally:
                self.depth -= 1


def install(md, site: str, hook):
    """Register a do-nothing plugin rule / wrapping render rule through the public API."""
    if site == "inline":
        def rule(state, silent):
            hook()
            return False
        md.inline.ruler.before("text", "verif_reenter", rule)
    elif site == "block":
        def rule(state, startLine, endLine, silent):
            hook()
            return False
        md.block.ruler.before("table", "verif_reenter", rule, {"alt": ["paragraph", "reference", "blockquote", "list"]})
    elif site == "core":
        def rule(state):
            hook()
        md.core.ruler.after("block", "verif_reenter", rule)
    elif site == "highlight":
        def hl(content, lang, attrs):
            hook()
            return ""
        md.options["highlight"] = hl
    else:
        def text_rule(self, tokens, idx, options, env):
            hook()
            t = tokens[idx].content
            return t.replace("&", "&amp;").replace("<", "&lt;").replace(">", "&gt;").replace('"', "&quot;")
        md.add_render_rule("text", text_rule)


def count_invocations(cfg, doc: str, site: str) -> int:
    md = C.build(cfg)
    box = [0]

    def hook():
        box[0] += 1

    install(md, site, hook)
    md.render(doc)
    return box[0]


_BLOCKED: dict = {}
_STALLED: list = []


def check_nested(case, res: Res) -> None:
    cfg, docs, site, k, state = case["cfg"], case["docs"], case["site"], case["k"], case["state"]
    d1, d2 = docs[0], docs[1]
    # control: same plugin, never re-entering
    ctrl = C.build(cfg)
    install(ctrl, site, lambda: None)
    env_c: dict = {}
    expected_outer = [ctrl.render(d1, env_c), env_c]
    ctrl2 = C.build(cfg)
    install(ctrl2, site, lambda: None)
    env_i: dict = {}
    expected_inner = [ctrl2.render(d2, env_i), env_i]
    md = make_instance(cfg, state, docs) if state != "reconfigured" else C.build(cfg)
    re = _Reenter(md, d2, k)
    install(md, site, re.hit)
    if state == "reconfigured":
        re.k = -1
        md.render(d1)
        md.disable("emphasis")
        md.enable("emphasis")
        re.n = 0
        re.k = k
    elif state == "warm":
        re.n = 0
    env: dict = {}
    outer = md.renderInline if case.get("outer") == "renderInline" else md.render
    if case.get("outer") == "renderInline":
        env_c2: dict = {}
        ctrl3 = C.build(cfg)
        install(ctrl3, site, lambda: None)
        expected_outer = [ctrl3.renderInline(d1, env_c2), env_c2]
    if _BLOCKED.get(site):
        res.cls.append("nested:skipped(after a blocked call at this site in this process)")
        return
    box: dict = {}

    def run_outer():
        try:
            box["got"] = [outer(d1, env), env]
        except RecursionError as e:
            box["rec"] = e
        except BaseException as e:  # noqa: BLE001
            box["exc"] = e

    import sys as _sys
    import threading
    import time as _time

    th = threading.Thread(target=run_outer, daemon=True)
    th.start()
    th.join(15.0)
    if th.is_alive():
        # not a verdict on speed: the call is *blocked* if its thread executes no byte-code between two observations
        def where():
            fr = _sys._current_frames().get(th.ident)
            return (id(fr), fr.f_lasti, fr.f_code.co_name) if fr is not None else None

        w1 = where()
        _time.sleep(1.0)
        w2 = where()
        if th.is_alive() and w1 is not None and w1 == w2:
            _BLOCKED[site] = True
            res.nt = True
            res.fail(f"nested:{site}:call-blocked", f"re-entering render(d2) at invocation {k} of the {site} rule: the outer call has not returned and its thread executes no byte-code (blocked in {w2[2]!r}); alone it returns at once")
            return
        th.join()
    if "rec" in box:
        res.fail(f"nested:{site}:RecursionError", repr(box["rec"])[:200])
        return
    if "exc" in box:
        raise box["exc"]
    got = box["got"]
    if re.inner is None:
        res.cls.append("nested:k-beyond-invocations")
        return
    res.nt = state != "warm"
    res.cls.append(f"nested:{site}")
    if got != expected_outer:
        res.fail(f"nested:{site}:outer-call-differs", f"re-entering render(d2) at invocation {k} of the {site} rule changed the outer result: {got[0]!r} != {expected_outer[0]!r}"[:600])
    if re.inner != expected_inner:
        res.fail(f"nested:{site}:inner-call-differs", f"inner render(d2) started at invocation {k} of the {site} rule: {re.inner[0]!r} != {expected_inner[0]!r}"[:600])


# --------------------------------------------------------------------------------------------


def ramp_docs(tag: str):
    a, b = _ramp_docs(tag)
    # a table that interrupts a paragraph, on the same lines in both documents (rules probed in validation mode first)
    return [f"p{tag}a\n| h{tag}a | x |\n|:--|--:|\n| c{tag} | d |\n\n" + a, f"p{tag}b\n| h{tag}b | y | z |\n|---|:-:|---|\n| e{tag} | f | g |\n\n" + b]


def _ramp_docs(tag: str):
    a = f"[a{tag}](/p/{tag}/a \"t{tag}\") ![i{tag}](/img/{tag}a) <http://h{tag}a.example/>\n\n[ra{tag}]: /ref/{tag}a 'T{tag}'\n\n[x][ra{tag}] w{tag} *e{tag}* `c{tag}`\n"
    b = f"[b{tag}](/q/{tag}/b) ![j{tag}](/img/{tag}b \"u{tag}\") <http://h{tag}b.example/>\n\n[rb{tag}]: /ref/{tag}b\n\n[y][rb{tag}] v{tag} **s{tag}**\n"
    return [a, b]


def check_ramp(case, res: Res) -> None:
    cfg = CFGS[case["cfgi"]]
    sched.arm()
    res.cls.append("ramp")
    names = sched._STATE["mut_names"]
    res.note = {"code that can mutate a module-level container": names}
    if not names:
        res.cls.append("ramp:no-code-mutates-module-level-containers")
        return
    md = C.build(cfg)
    md.render(PAIRS[0][0])
    n = 0
    for h in range(case["steps"]):
        docs = ramp_docs(f"{case['salt']}x{h}")
        # where thread 0 is inside such code (recorded on another instance; this also makes call 1's keys known to
        # any memo, call 2's stay new)
        rec_md = C.build(cfg)
        rec_md.render(PAIRS[0][0])  # same state as the shared instance: chains compiled
        s0 = sched.Sched([lambda: _call(rec_md, "render", docs[0])], [sched.BIG], 10**8, record_focus=True)
        s0.run()
        pts = s0.mutfocus
        if len(pts) > 120:
            pts = pts[:: max(1, len(pts) // 120)]
        for j, k in enumerate(pts):
            # call 2 must be new to the process at every schedule: vary its tag
            d2 = ramp_docs(f"{case['salt']}x{h}y{j}")[1]
            fns = [lambda: _call(md, "render", docs[0]), lambda d2=d2: _call(md, "render", d2)]
            s = sched.Sched(fns, [k, sched.BIG], 10**7)
            results, _ = s.run()
            n += 1
            exp = [_call(C.build(cfg), "render", docs[0]), _call(C.build(cfg), "render", d2)]
            for i, (r, e) in enumerate(zip(results, exp)):
                if r is None or r[0] == "nonterminating":
                    res.fail("ramp:nontermination-under-schedule", f"step {h} point {k} thread {i}")
                elif r[0] == "exception":
                    res.fail("ramp:exception-under-schedule:" + r[1].split(":")[0], f"after {h} ramp steps, thread 1 pre-empted after {k} library instructions (inside {sorted(names)}): thread {i} raised {r[1]}"[:500])
                elif r[1] != e:
                    res.fail("ramp:result-differs-from-solo", f"after {h} ramp steps, pre-emption after {k} instructions: thread {i} {r[1][0]!r} != solo {e[0]!r}"[:600])
            if res.v:
                res.n = max(1, n)
                return
        if h < 2:
            # two switches: call 1 pre-empted inside such code, call 2 runs up to a point inside such code, call 1 finishes
            d2 = ramp_docs(f"{case['salt']}x{h}z")[1]
            rec2 = C.build(cfg)
            rec2.render(PAIRS[0][0])
            sb = sched.Sched([lambda: _call(rec2, "render", d2)], [sched.BIG], 10**8, record_focus=True)
            sb.run()
            pa = s0.mutpoints[:: max(1, len(s0.mutpoints) // 40)] or pts[:: max(1, len(pts) // 40)]
            pb = sb.mutpoints[:: max(1, len(sb.mutpoints) // 40)] or sb.mutfocus[:: max(1, len(sb.mutfocus) // 12)]
            exp = [_call(C.build(cfg), "render", docs[0]), _call(C.build(cfg), "render", d2)]
            for ka in pa:
                for kb in pb:
                    s2 = sched.Sched([lambda: _call(md, "render", docs[0]), lambda: _call(md, "render", d2)], [ka, kb, sched.BIG], 10**7)
                    results, _ = s2.run()
                    n += 1
                    for i, (r, e) in enumerate(zip(results, exp)):
                        if r is None or r[0] != "ok":
                            res.fail("ramp:call-failed-under-schedule", f"two-switch plan [{ka}, {kb}]: thread {i}: {r!r}"[:400])
                        elif r[1] != e:
                            res.fail("ramp:result-differs-from-solo", f"two-switch plan [{ka}, {kb}] (both calls pre-empted inside {sorted(names)}): thread {i} {r[1][0]!r} != solo {e[0]!r}"[:700])
                    if res.v:
                        res.n = max(1, n)
                        return
    res.n = max(1, n)
    res.nt = n > 0


def check(case) -> Res:
    res = Res()
    if case["kind"] == "nested":
        check_nested(case, res)
        return res
    if case["kind"] == "ramp":
        check_ramp(case, res)
        return res
    cfg, docs, calls, state = case["cfg"], case["docs"], case["calls"], case["state"]
    if _STALLED:
        res.cls.append("threads:skipped(the library blocks while pre-empted; scheduler not applicable in this process)")
        return res
    key = repr(cfg)
    if key not in _WARMED:
        for dd in docs:
            C.build(cfg).render(dd)
        _WARMED.add(key)
    expected = [solo(cfg, dd, h) for dd, h in zip(docs, calls)]
    counts, _focus = rec(cfg, state, docs, calls)
    md = make_instance(cfg, state, docs)
    fns = [(lambda dd=dd, h=h: _call(md, h, dd)) for dd, h in zip(docs, calls)]
    limit = 5 * max(counts) + 50000
    s = sched.Sched(fns, list(case["plan"]), limit)
    results, got_counts = s.run()
    if s.stalled:
        _STALLED.append(True)
        res.cls.append("threads:scheduler-stall(non-verdict: the library blocked while another call was pre-empted)")
        return res
    inside = s.switches >= 1 and all(c > 0 for c in got_counts) and any(0 < a < counts[i] for (i, a, _j) in s.switch_log)
    res.nt = bool(inside) and state != "warm"
    res.cls.append("state:" + state)
    res.cls.append("origin:" + case.get("origin", "?"))
    res.cls.append(f"threads:{len(docs)}")
    if inside:
        res.cls.append("switch_inside_call")
    for i, (r, exp) in enumerate(zip(results, expected)):
        if r is None:
            res.fail("thread-did-not-finish", f"thread {i}")
        elif r[0] == "nonterminating":
            res.fail("nontermination-under-schedule", f"thread {i} exceeded {limit} library instructions (solo {counts[i]}) under plan {case['plan'][:6]} state {state}")
        elif r[0] == "exception":
            res.fail("exception-under-schedule:" + r[1].split(":")[0], f"thread {i}: {r[1]} under plan {case['plan'][:6]} state {state}")
        elif r[1] != exp:
            a, b = r[1][0], exp[0]
            res.fail("result-differs-from-solo", f"thread {i} ({calls[i]}) under plan {case['plan'][:6]} state {state}: {a!r} != solo {b!r}"[:600])
    return res

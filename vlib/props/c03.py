"""C03 - source maps are in range, non-empty, nested, ordered and cover the input."""
from __future__ import annotations

import re

from hypothesis import strategies as st

from .. import cfg as C
from .. import gen
from ..runner import Res
from ..util import src_lines

ID = "C03"
LEVEL = "exploration"
RULE = (
    "cases = (document x block-rule configuration); documents from the constructive generators incl. tabs, CR/CRLF, "
    "NUL and missing final newline; configurations = fixed block-rule subsets (table on, code off, zero+containers, "
    "inline_definitions) and generated ones. Oracle = geometry predicate over every mapped token plus coverage of "
    "non-blank lines. Non-trivial = the stream has a container with a multi-line child, or a table, or a recorded "
    "reference definition; distinct = distinct case hash."
)
ASSUMPTIONS = [
    "a line is blank iff it holds only spaces and tabs (the library's notion); for tokens inside containers the start-line test is the weaker 'holds a character other than space/tab'",
]
SHRINK = {"text": ["src"], "list": ["cfg.enable", "cfg.disable"], "keys": ["cfg.options"]}

END_NONBLANK = {"paragraph_open", "heading_open", "hr", "code_block", "tr_open"}
FIXED_CFGS = [
    C.simple("commonmark"),
    C.simple("js-default"),
    C.simple("commonmark", enable=["table"], disable=["code"]),
    C.simple("commonmark", inline_definitions=True),
    C.simple("zero", enable=["list", "blockquote", "table"]),
    C.simple("js-default", html=True),
    C.simple("zero", enable=["list", "blockquote", "code", "fence", "reference", "heading", "lheading", "hr"]),
]


def budget(tier: str) -> dict:
    return {"examples": 50000 if tier == "quick" else 1500000}


@st.composite
def _case(draw):
    d = gen.D(draw)
    src = gen.any_doc_d(d)
    cfg = gen.maybe_late(d, d.pick(FIXED_CFGS)) if d.chance(0.6) else gen.config_d(d, allow_linkify=False)
    return {"src": src, "cfg": cfg}


def strategy(tier: str):
    return _case()


def enumerate_cases(tier: str, shard: int, nshards: int):
    """The scalable families of C20 at two sizes (thorough: three): the geometry must also hold at scale, where size
    thresholds inside rules (cell autocompletion limit, nesting cut-off) engage; and every family in a quote / a list."""
    from .c20 import F as FAMILIES

    idx = 0
    for name in sorted(FAMILIES):
        for nn in (40, 700) if tier == "quick" else (40, 700, 5000):
            for ci, wrap in ((1, ""), (5, ""), (1, "> "), (0, "- ")):
                if wrap and nn > 40:
                    continue
                idx += 1
                if idx % nshards != shard:
                    continue
                src = FAMILIES[name](nn)
                if wrap:
                    src = "".join((wrap if i == 0 or wrap == "> " else "  ") + ln for i, ln in enumerate(src.splitlines(True)))
                yield {"src": src, "cfg": FIXED_CFGS[ci], "family": name}


def blank(line: str) -> bool:
    return line.strip(" \t") == ""


def _occurs(c: str, line: str, cell: bool) -> bool:
    c = c.strip()
    if cell:
        line = line.replace("\\|", "|")
    if c in line:
        return True
    # leading blanks synthesised by the expansion of a partially consumed tab
    return c.lstrip(" ") in line


_PREFIX = re.compile(r"^(?:[ \t]*(?:>|[-+*]|\d{1,9}[.)]))*")


def _outside_ok(line: str, nested: bool) -> bool:
    """A line of an inline container's map that holds none of its content: only characters
    str.strip() removes (the paragraph rule strips them), after the container prefix."""
    if line.strip() == "":
        return True
    return nested and _PREFIX.sub("", line, count=1).strip() == ""


def check_maps(src: str, tokens, env, res: Res, stats: dict) -> None:
    L = src_lines(src)
    n = len(L)
    stack: list = []  # maps of open ancestors
    kinds: list = []  # their token kinds
    lastsib: list = [None]
    for idx, t in enumerate(tokens):
        if t.nesting == -1:
            if stack:
                stack.pop()
                kinds.pop()
                lastsib.pop()
            continue
        m = t.map
        if m is not None:
            if not (isinstance(m, list) and len(m) == 2 and all(isinstance(x, int) for x in m)):
                res.fail(f"map-shape:{t.type}", repr(m))
            else:
                b, e = m
                if not (0 <= b < e <= n):
                    res.fail(f"range:{t.type}", f"map {m} with {n} input lines")
                else:
                    top = not stack
                    if blank(L[b]):
                        res.fail(f"start-blank:{t.type}", f"map {m} starts on blank line {L[b]!r}")
                    if t.type in END_NONBLANK and blank(L[e - 1]):
                        res.fail(f"end-blank:{t.type}", f"map {m} ends on blank line")
                    if stack and all(k == "blockquote_open" for k in kinds) and t.type != "blockquote_open":
                        # inside block quotes only: blank means blank after the quote markers (column-exact cursor)
                        from .c08 import enter_quotes

                        cb = enter_quotes(L[b], len(stack))
                        if cb is not None and cb.rest()[0].strip(" \t") == "":
                            res.fail(f"start-blank-in-quote:{t.type}", f"map {m} starts on {L[b]!r}, which is blank inside its {len(stack)} quote(s)")
                        ce = enter_quotes(L[e - 1], len(stack))
                        if t.type in END_NONBLANK and ce is not None and ce.rest()[0].strip(" \t") == "":
                            res.fail(f"end-blank-in-quote:{t.type}", f"map {m} ends on {L[e - 1]!r}, which is blank inside its quote(s)")
                        stats["strict_blank_in_quotes"] = True
                    if top and t.type == "paragraph_open" and idx + 1 < len(tokens) and tokens[idx + 1].type == "inline":
                        # top level: the paragraph's content is exactly its source lines, stripped at both ends
                        exp = "\n".join(L[b:e]).strip()
                        if tokens[idx + 1].content != exp and tokens[idx + 1].map == m:
                            res.fail("paragraph-content-exact", f"content {tokens[idx + 1].content!r} != lines {m} stripped {exp!r}")
                    par = next((pm for pm in reversed(stack) if pm is not None), None)
                    if par is not None and not (par[0] <= b and e <= par[1]):
                        res.fail(f"outside-parent:{t.type}", f"map {m} not inside enclosing map {par}")
                    if lastsib[-1] is not None and b < lastsib[-1]:
                        res.fail(f"sibling-order:{t.type}", f"map {m} starts before the end {lastsib[-1]} of the preceding sibling")
                    lastsib[-1] = e
                    if e - b > 1 and stack:
                        stats["multiline_in_container"] = True
                    if t.type == "inline":
                        cl = t.content.split("\n")
                        k = len(cl)
                        cell = idx > 0 and tokens[idx - 1].type in ("td_open", "th_open")
                        ok = False
                        if k <= e - b:
                            for o in range(0, e - b - k + 1):
                                if all(_occurs(c, L[b + o + i], cell) for i, c in enumerate(cl)) and all(
                                    _outside_ok(L[j], bool(stack)) for j in list(range(b, b + o)) + list(range(b + o + k, e))
                                ):
                                    ok = True
                                    break
                        if not ok:
                            res.fail("inline-content-lines", f"content {t.content!r} does not sit on lines {m} = {L[b:e]!r}")
        if t.type == "table_open":
            stats["table"] = True
        if t.nesting == 1:
            stack.append(m if (isinstance(m, list) and len(m) == 2) else None)
            kinds.append(t.type)
            lastsib.append(None)
    covered = set()
    for t in tokens:
        if t.level == 0 and isinstance(t.map, list) and len(t.map) == 2:
            covered.update(range(t.map[0], t.map[1]))
    refs = env.get("references", {})
    for label, r in refs.items():
        m = r.get("map") if isinstance(r, dict) else None
        if not (isinstance(m, list) and len(m) == 2 and 0 <= m[0] < m[1] <= n):
            res.fail("reference-map-range", f"references[{label!r}].map={m} with {n} lines")
        else:
            covered.update(range(m[0], m[1]))
            if blank(L[m[0]]) or blank(L[m[1] - 1]):
                res.fail("reference-map-blank-edge", f"references[{label!r}].map={m}")
            stats["refdef"] = True
    for r in env.get("duplicate_refs", []):
        m = r.get("map") if isinstance(r, dict) else None
        if isinstance(m, list) and len(m) == 2 and 0 <= m[0] < m[1] <= n:
            covered.update(range(m[0], m[1]))
            stats["refdef"] = True
        else:
            res.fail("reference-map-range", f"duplicate_refs map={m} with {n} lines")
    for i, ln in enumerate(L):
        if not blank(ln) and i not in covered:
            res.fail("uncovered-line", f"line {i} {ln!r} is in no top-level map nor reference map")
            break


def check(case) -> Res:
    res = Res()
    md = C.build(case["cfg"])
    env: dict = {}
    toks = md.parse(case["src"], env)
    stats: dict = {}
    check_maps(case["src"], toks, env, res, stats)
    res.nt = bool(stats)
    for k in stats:
        res.cls.append(k)
    if "\t" in case["src"]:
        res.cls.append("has_tab")
    if "\r" in case["src"]:
        res.cls.append("has_cr")
    if not case["src"].endswith("\n"):
        res.cls.append("no_final_newline")
    return res

"""C19 - typographic replacements are local to text and never touch structure or literals."""
from __future__ import annotations

import re

from hypothesis import strategies as st

from .. import cfg as C
from .. import gen
from ..runner import Res

ID = "C19"
LEVEL = "exploration"
RULE = (
    "cases = (document dense in quotes, apostrophes, (c) (tm) +- ... -- --- etc., written raw, backslash-escaped and "
    "as references, inside code spans, raw HTML, destinations, titles and autolinks) x {replacements, smartquotes, "
    "both} x quotes option values (4-char strings; lists of four strings incl. empty, multi-character, containing "
    "quote or markup characters) x presets. The token stream is snapshotted by a core rule registered through the "
    "public API right before text_join (escapes/entities are still separate placeholder tokens there) and at the end; "
    "typographer off vs on must agree on everything but text content (autolink text included in 'everything'), and "
    "under smartquotes-only each text must match the off text read as a pattern in which a straight quote may stand "
    "for itself, a configured quote string or an apostrophe. Second relation: a constructed text whose protected "
    "characters are written once as backslash escapes and once as numeric references must render identically with the "
    "typographer on. Non-trivial = the on and off streams differ; distinct = distinct case hash."
)
ASSUMPTIONS = ["the snapshot rule is inserted with md.core.ruler.before('text_join', ...)", "test-double linkifier where linkify is on"]
SHRINK = {"text": ["src"], "list": ["frags"]}

INL = [
    '*"**a**"*', "_'__a__'_", '***"*a*"***', '**"*a*"**', "*'**a**'* b",
    "a", "b c", "*e*", "**s**", "`c \"q\" 'r' -- ...`", "[l \"x\"](u \"t's\")", "![i's](s \"t\")", "<http://a.b/\"x\">", "<http://a.b/'q'--...>", "<b title=\"q\">", "&quot;", "&#39;",
    "\\\"", "\\'", '"', "'", '"', "'", '""', "''", "\"'", "(c)", "(tm)", "(R)", "(C)", "...", "....", "--", "---", "+-", "?!....", "!!!!!", "????", ",,", "1\"", "5'",
    "\n", " ", "  \n", "don't", '"a"', "'b'", "«", "é", ".", ",", "-", "[r]: \"x\"", "\\(c\\)", "\\.\\.\\.", "\\-\\-", "&#40;c&#41;", "&hellip;", "\\,,", ",\\,", "\\?\\?\\?\\?",
    "<a@b.c>", "http://x.y/\"z\"", "x--y", "x -- y", "-- ", "(c", "c)", "(TM)", "<!-- \"c\" -- -->", "```\n\"q\" -- ...\n```", "    \"code\" (c)\n", "\n\n", "> \"q\n> r\"", "- 'a\n- b'",
]
TRIGGERS = ["(c)", "(C)", "(r)", "(R)", "(tm)", "(TM)", "+-", "..", "...", "....", "?....", "!....", "????", "!!!!!", ",,", "--", "---", "a--b", "\"", "'", "\"q\"", "'r'", "don't"]
LITERAL_CONTEXTS = [
    "`{t}`", "`` x {t} y ``", "<http://a.b/{t}>", "<http://a.b/x{t}y{t}>", "<a title=\"{t}\">", "<!-- {t} -->", "[l]({u} \"{t}\")", "[l](/{t})", "![i](/{t} '{t}')",
    "```\n{t}\n```", "``` {t}\nx\n```", "    {t}\n", "<div>\n{t}\n</div>", "[r]: /{t} \"{t}\"\n\n[r]", "http://x.y/{t}", "a@b.c {t}", "\\{t}", "&#40;c&#41; {t}",
    "*{t}*", "# {t}", "> {t}", "| {t} |\n|-|", "[{t}](u)", "![{t}](u)",
]
QUOTES = [
    "“”‘’", "«»„“", ["« ", " »", "‹ ", " ›"], ["<<", ">>", "<", ">"], ["", "", "", ""], "\"\"''", ['"x', 'y"', "'z", "w'"], "'\"\"'", ["&quot;", "&quot;", "&#39;", "&#39;"],
    "abcd", ["``", "''", "`", "'"], ["*", "*", "_", "_"],
]
PROTECT = "\"'.,-?!+()"
RAWFRAGS = ["a", "b", " ", " ", "\"", "'", "(c)", "(tm)", "...", "..", "--", "---", "+-", "????", "!!!!", ",,", ",", ".", "-", "?", "!", "(", ")", "c", "tm", "+", "x", "1", "’", "\n"]


def budget(tier: str) -> dict:
    return {"examples": 30000 if tier == "quick" else 1000000}


@st.composite
def _case(draw):
    d = gen.D(draw)
    preset = d.pick(["commonmark", "js-default", "js-default"])
    q = d.pick(QUOTES)
    if d.chance(0.3):
        frags = []
        for _ in range(d.i(2, 14)):
            if d.chance(0.2):
                frags.append(["e", d.pick("cCrRtTmMpP")])
            elif d.chance(0.3):
                frags.append(["p", d.pick(PROTECT)])
            else:
                frags.append(["r", d.pick(RAWFRAGS)])
        if d.chance(0.35):
            # a scoped abbreviation with one of its letters written as a reference, next to a raw one
            ab = d.pick(["c", "r", "tm", "C", "R", "TM", "tM"])
            j = d.i(0, len(ab) - 1)
            seq = [["r", "("]] + [["e", ch] if i == j else ["r", ch] for i, ch in enumerate(ab)] + [["r", ")"]]
            frags = frags[: d.i(0, len(frags))] + [["r", d.pick(["(c)", "(tm)", "(r)"])], ["r", " "]] + seq + [["r", " "]] + frags[:2]
        return {"kind": "escape-vs-entity", "preset": preset, "quotes": q, "mode": d.pick(["sq", "rep", "both"]), "frags": frags, "late": d.chance(0.25)}
    mode = d.pick(["sq", "rep", "both"])
    k = d.i(0, 12)
    if k == 12:
        src = "".join(gen.tight_nest(d) + d.pick(["", " "]) for _ in range(d.i(1, 3))) + d.pick(["", " \"q\"", " 'r'"])
        return {"kind": "onoff", "preset": preset, "quotes": q, "mode": mode, "src": src, "linkify": False, "html": d.chance(0.5), "late": d.chance(0.3)}
    if k >= 10:
        parts = []
        for _ in range(d.i(1, 3)):
            c = d.pick(LITERAL_CONTEXTS)
            while "{t}" in c:
                c = c.replace("{t}", d.pick(TRIGGERS), 1)
            parts.append(c.replace("{u}", "/u"))
        src = d.pick(["\n\n", " ", "\n"]).join(parts)
        return {"kind": "onoff", "preset": preset, "quotes": q, "mode": mode, "src": src, "linkify": d.chance(0.4), "html": d.chance(0.6)}
    if k < 6:
        src = "".join(d.pick(INL) + d.pick(["", " ", ""]) for _ in range(d.i(1, 10)))
    elif k < 8:
        src = gen.any_doc_d(d) + "\n\n" + "".join(d.pick(INL) + d.pick(["", " "]) for _ in range(d.i(1, 5)))
    else:
        src = gen.inline(d, 0, False, 8)
    if d.chance(0.15):
        # the same inline content more than once in one document (equal paragraphs, list items, table cells)
        rep = d.pick(["para", "para", "items", "cells", "heading+para"])
        one = src.split("\n")[0] if rep != "para" else src
        if rep == "para":
            src = src + "\n\n" + src
        elif rep == "items":
            src = "- " + one + "\n- " + one + "\n"
        elif rep == "cells":
            src = "| " + one + " | " + one + " |\n|---|---|\n| " + one + " | " + one + " |\n"
        else:
            src = "# " + one + "\n\n" + one + "\n"
    return {"kind": "onoff", "preset": preset, "quotes": q, "mode": mode, "src": src, "linkify": d.chance(0.15), "html": d.chance(0.5), "late": d.chance(0.3)}


def strategy(tier: str):
    return _case()


def build_pair(case):
    rules = {"sq": ["smartquotes"], "rep": ["replacements"], "both": ["smartquotes", "replacements"]}[case["mode"]]
    out = []
    for typ in (False, True):
        c = C.simple(case["preset"], typographer=typ, quotes=case["quotes"], linkify=bool(case.get("linkify")))
        c["late"] = bool(case.get("late"))
        if "html" in case:
            c["options"]["html"] = bool(case["html"])
        md = C.build(c)
        md.disable(["smartquotes", "replacements"])
        md.enable(rules)
        out.append(md)
    return out


def snap_plugin(md, store: list) -> None:
    def snap(state):
        store.clear()
        for t in state.tokens:
            store.append(t.as_dict())

    md.core.ruler.before("text_join", "verif_snapshot", snap)


def sq_pattern(text: str, q) -> str:
    parts = []
    for ch in text:
        if ch == '"':
            parts.append("(?:\"|%s|%s)" % (re.escape(q[0]), re.escape(q[1])))
        elif ch == "'":
            parts.append("(?:'|%s|%s|’)" % (re.escape(q[2]), re.escape(q[3])))
        else:
            parts.append(re.escape(ch))
    return "".join(parts)


def walk(a, b, q, res: Res, mode: str, stage: str, in_auto=False) -> bool:
    if len(a) != len(b):
        res.fail(f"{stage}:token-count-differs", f"{len(a)} tokens without typographer, {len(b)} with: {[t['type'] for t in a][:10]} vs {[t['type'] for t in b][:10]}")
        return False
    auto = 0
    for x, y in zip(a, b):
        for k in x:
            if k in ("children", "content"):
                continue
            if x[k] != y[k]:
                res.fail(f"{stage}:field-differs:{x['type']}.{k}", f"{x[k]!r} != {y[k]!r}")
                return False
        if x["type"] == "link_open" and x.get("info") == "auto":
            auto += 1
        if x["type"] == "link_close" and x.get("info") == "auto":
            auto -= 1
        if x["type"] == "text" and not auto and not in_auto:
            if mode == "sq":
                if not re.fullmatch(sq_pattern(x["content"], q), y["content"], re.S):
                    res.fail(f"{stage}:smartquotes-changed-more-than-quotes", f"{x['content']!r} -> {y['content']!r} with quotes {q!r}")
                    return False
        else:
            if x["content"] != y["content"]:
                what = "autolink-text" if x["type"] == "text" else x["type"]
                res.fail(f"{stage}:literal-changed:{what}", f"{x['content']!r} -> {y['content']!r}")
                return False
        if x.get("children") is not None or y.get("children") is not None:
            if not walk(x.get("children") or [], y.get("children") or [], q, res, mode, stage):
                return False
    return True


def _sub_z(h: str, letters: list) -> str:
    it = iter(letters)
    return re.sub("z", lambda m: next(it), h)


def check(case) -> Res:
    res = Res()
    q = case["quotes"]
    off, on = build_pair(case)
    res.cls.append(case["kind"])
    res.cls.append("mode:" + case["mode"])
    if case["kind"] == "escape-vs-entity":
        lit = lambda k, v: ("&#%d;" % ord(v)) if k == "e" else v  # noqa: E731  letters written as numeric references
        esc = "".join(("\\" + v) if k == "p" else lit(k, v) for k, v in case["frags"])
        ent = "".join(("&#%d;" % ord(v)) if k == "p" else lit(k, v) for k, v in case["frags"])
        letters = [v for k, v in case["frags"] if k == "e"]
        if letters and "z" not in esc.replace("&#122;", ""):
            # a letter written as a reference is opaque to the typographer: writing another letter ('z') there must
            # change nothing but that letter
            zsrc = "".join(("\\" + v) if k == "p" else ("&#122;" if k == "e" else v) for k, v in case["frags"])
            if off.render(zsrc).count("z") == len(letters) and off.render(esc) == _sub_z(off.render(zsrc), letters):
                hz = on.render(zsrc)
                if hz.count("z") == len(letters) and on.render(esc) != _sub_z(hz, letters):
                    res.fail("entity-letter-rewritten", f"typographer on: {esc!r} -> {on.render(esc)!r}, but with 'z' in place of the referenced letters {zsrc!r} -> {hz!r}")
        if not esc.strip():
            return res
        h1 = on.render(esc)
        h2 = on.render(ent)
        # the blocks must be the same in both spellings for the comparison to be about the typographer
        if off.render(esc) != off.render(ent):
            res.cls.append("escape-vs-entity:block-structure-differs")
            return res
        res.nt = h1 != off.render(esc)
        if h1 != h2:
            res.fail("escaped-character-rewritten", f"typographer on: {esc!r} -> {h1!r} but {ent!r} -> {h2!r}")
        return res
    s1: list = []
    s2: list = []
    snap_plugin(off, s1)
    snap_plugin(on, s2)
    src = case["src"]
    f1 = [t.as_dict() for t in off.parse(src)]
    f2 = [t.as_dict() for t in on.parse(src)]
    ok = walk(s1, s2, q, res, case["mode"], "before-text_join")
    if ok:
        walk(f1, f2, q, res, case["mode"], "final")
    res.nt = f1 != f2
    if any(t["type"] == "link_open" and t.get("info") == "auto" for tk in f1 for t in (tk.get("children") or [])):
        res.cls.append("has_autolink")
    return res

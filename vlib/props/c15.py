"""C15 - tokens survive serialisation and tree conversion; rendering is repeatable."""
from __future__ import annotations

import copy

from hypothesis import strategies as st

from .. import cfg as C
from .. import gen
from ..runner import Res
from ..util import walk_tokens

ID = "C15"
LEVEL = "exploration"
RULE = (
    "cases = token streams produced by (document x configuration) from the general generators (store_labels / "
    "inline_definitions on in a share of the configurations, so meta and non-string attrs occur); every token "
    "(recursively) is round-tripped through as_dict/from_dict in both attribute formats, with and without children; "
    "the stream is turned into a SyntaxTreeNode and back, walked, and its parent/child/sibling links and attribute "
    "proxies are checked; the stream is rendered twice, compared with a deep copy, and rendered again after a "
    "round-trip through dicts. Non-trivial = the stream has an image with children, or a non-string attribute value, "
    "or non-empty meta, or two equal sibling tokens; distinct = distinct case hash."
)
ASSUMPTIONS = [
    "from_dict(as_dict(children=False)) is asserted only for tokens without children (with children the dict deliberately still holds Token objects, which from_dict does not accept)",
]
SHRINK = {"text": ["src"], "list": ["cfg.enable", "cfg.disable"], "keys": ["cfg.options"]}


def budget(tier: str) -> dict:
    return {"examples": 30000 if tier == "quick" else 500000}


@st.composite
def _case(draw):
    d = gen.D(draw)
    k = d.i(0, 9)
    if k < 4:
        src = d.pick(["7. a\n8. b\n", "![a *b* ![c](d)](e \"t\")\n", "```py x\nc\n```\n", "[l][r]\n\n[r]: /u 'T'\n", "a\nb\nc\n", "*a* *a* `x` `x`\n", "| a |\n|:-:|\n| b |\n", "![](s) ![](s)\n", "- \n-\n"]) + (gen.any_doc_d(d) if d.chance(0.5) else "")
    else:
        src = gen.any_doc_d(d)
    cfg = gen.config_d(d)
    if d.chance(0.4):
        cfg["options"]["store_labels"] = True
    if d.chance(0.3):
        cfg["options"]["inline_definitions"] = True
    if d.chance(0.06):
        # levels are then not recomputed after delimiter processing: the stream is still correctly nested, and every
        # clause of this property (serialisation, tree by nesting, repeatable rendering) holds for it on the unchanged tree
        cfg["disable"] = list(cfg["disable"]) + ["fragments_join"]
        if d.chance(0.7):
            src = "".join(gen.tight_nest(d) + d.pick(["", " "]) for _ in range(d.i(1, 3))) + "\n"
    return {"src": src, "cfg": cfg}


def strategy(tier: str):
    return _case()


def enumerate_cases(tier: str, shard: int, nshards: int):
    """Streams nested up to (and beyond) the nesting limit of each preset: the tree must be constructible for every
    stream the parser returns."""
    shapes = {
        "quotes": lambda n: ">" * n + " a *b* [c](d)\n",
        "lists": lambda n: "- " * n + "a `b`\n",
        "ordered": lambda n: "1. " * n + "a\n",
        "quote-list": lambda n: "> - " * n + "a *b*\n",
        "quotes+emphasis": lambda n: ">" * n + " " + "*a " * 40 + "b" + " c*" * 40 + "\n",
        "quotes+links": lambda n: ">" * n + " " + "[" * 30 + "a" + "](u)" * 30 + "\n",
    }
    idx = 0
    for preset in ("js-default", "commonmark", "default"):
        for name in sorted(shapes):
            for n in (10, 19, 20, 21, 33, 48, 49, 50, 51, 70, 96, 97, 98, 99, 100, 101, 150):
                idx += 1
                if idx % nshards == shard:
                    yield {"src": shapes[name](n), "cfg": C.simple(preset), "deep": name}


def _flatten_open(tokens):
    for t in tokens:
        if t.nesting >= 0:
            yield t
            if t.children:
                yield from _flatten_open(t.children)


def check_tree(tokens, res: Res, stats: dict) -> None:
    from markdown_it.tree import SyntaxTreeNode

    try:
        root = SyntaxTreeNode(tokens)
    except Exception as e:  # noqa: BLE001
        res.fail(f"tree:construction:{type(e).__name__}", repr(e))  # C02 territory, reported here as well
        return
    back = root.to_tokens()
    if len(back) != len(tokens) or any(a is not b for a, b in zip(back, tokens)):
        res.fail("tree:to_tokens-not-identical", f"{[t.type for t in back][:12]} vs {[t.type for t in tokens][:12]}")
    # sub-trees: every top-level node can be rebuilt from its own token slice without a root
    pos = 0
    for child in root.children:
        own = child.to_tokens()
        if len(own) != sum(1 for _ in own) or any(a is not b for a, b in zip(own, tokens[pos : pos + len(own)])):
            res.fail("tree:child-to_tokens", f"{child!r}")
            break
        try:
            sub = SyntaxTreeNode(own, create_root=False)
        except Exception as e:  # noqa: BLE001
            res.fail(f"tree:subtree-construction:{type(e).__name__}", repr(e))
            break
        st = sub.to_tokens()
        if sub.type != child.type or sub.is_root or len(st) != len(own) or any(a is not b for a, b in zip(st, own)):
            res.fail("tree:subtree(create_root=False)", f"{child.type}: type={sub.type!r} is_root={sub.is_root} to_tokens={[t.type for t in st]} expected {[t.type for t in own]}")
            break
        pos += len(own)
    walked = list(root.walk(include_self=False))
    expect = list(_flatten_open(tokens))
    got = [n.token if n.token is not None else n.nester_tokens.opening for n in walked]
    if len(got) != len(expect) or any(a is not b for a, b in zip(got, expect)):
        res.fail("tree:walk-order", f"{[t.type for t in got][:14]} vs stream order {[t.type for t in expect][:14]}")
    if next(iter(root.walk()), None) is not root:
        res.fail("tree:walk-include-self", "")
    if root.parent is not None or not root.is_root or list(root.siblings) != [root]:
        res.fail("tree:root-links", "")
    for node in [root] + walked:
        ch = node.children
        for idx, c in enumerate(ch):
            if c.parent is not node:
                res.fail("tree:parent-link", f"{c!r}.parent is {c.parent!r}, expected {node!r}")
                return
            if c.siblings is not ch and list(c.siblings) != list(ch):
                res.fail("tree:siblings", repr(c))
                return
            exp_prev = ch[idx - 1] if idx > 0 else None
            exp_next = ch[idx + 1] if idx + 1 < len(ch) else None
            if c.previous_sibling is not exp_prev:
                res.fail("tree:previous_sibling", f"child #{idx} of {node!r}: {c.previous_sibling!r} is not {exp_prev!r}")
                return
            if c.next_sibling is not exp_next:
                res.fail("tree:next_sibling", f"child #{idx} of {node!r}: {c.next_sibling!r} is not {exp_next!r}")
                return
            if idx and not stats.get("equal_siblings"):
                a = ch[idx - 1]
                ta = a.token or a.nester_tokens.opening
                tb = c.token or c.nester_tokens.opening
                if ta == tb:
                    stats["equal_siblings"] = True
        if node is root:
            continue
        tok = node.token if node.token is not None else node.nester_tokens.opening
        exp_type = tok.type if node.token is not None else tok.type.removesuffix("_open")
        if node.type != exp_type:
            res.fail("tree:type", f"{node.type!r} vs {exp_type!r}")
        if node.is_nested != (node.token is None):
            res.fail("tree:is_nested", repr(node))
        for fld in ("tag", "level", "content", "markup", "info", "meta", "block", "hidden", "attrs"):
            if getattr(node, fld) != getattr(tok, fld):
                res.fail(f"tree:proxy:{fld}", f"{node!r}.{fld}={getattr(node, fld)!r} token has {getattr(tok, fld)!r}")
        m = node.map
        if (tok.map is None) != (m is None) or (m is not None and list(m) != list(tok.map)):
            res.fail("tree:proxy:map", f"{m!r} vs {tok.map!r}")
        if node.nester_tokens is not None:
            cl = node.nester_tokens.closing
            if cl.nesting != -1 or tok.nesting != 1:
                res.fail("tree:nester-pair", f"{tok.type}/{cl.type}")


def check_tree_detached(tokens, res: Res) -> None:
    """Links must not depend on the caller keeping the root: a helper that builds a tree and hands out only some
    descendant is ordinary use.  The root is dropped before the links are read."""
    from markdown_it.tree import SyntaxTreeNode

    def descendants():
        return list(SyntaxTreeNode(tokens).walk(include_self=False))

    try:
        nodes = descendants()
    except Exception:  # noqa: BLE001
        return  # construction is check_tree's subject
    for n in nodes[:60] + nodes[-5:]:
        p = n.parent
        if p is None:
            res.fail("tree:detached:parent-lost", f"{n!r}.parent is None after the caller dropped the root (the node is not a root: is_root={n.is_root})")
            return
        if not any(c is n for c in p.children):
            res.fail("tree:detached:not-among-parents-children", repr(n))
            return
        if not any(c is n for c in n.siblings):
            res.fail("tree:detached:siblings", repr(n))
            return
        top = n
        for _ in range(10**4):
            if top.parent is None:
                break
            top = top.parent
        if not top.is_root or top.type != "root":
            res.fail("tree:detached:climb-does-not-reach-root", f"from {n!r} reached {top!r}")
            return


def check(case) -> Res:
    from markdown_it.token import Token

    res = Res()
    md = C.build(case["cfg"])
    env: dict = {}
    tokens = md.parse(case["src"], env)
    stats: dict = {}
    # ---- serialisation
    for t in walk_tokens(tokens):
        if t.type == "image" and t.children:
            stats["image_children"] = True
        if t.meta:
            stats["meta"] = True
        if any(not isinstance(v, str) for v in (t.attrs or {}).values()):
            stats["nonstring_attr"] = True
        for up in (True, False):
            try:
                d = t.as_dict(as_upstream=up)
                t2 = Token.from_dict(copy.deepcopy(d))
            except Exception as e:  # noqa: BLE001
                res.fail(f"roundtrip:{type(e).__name__}:as_upstream={up}", f"{t.type}: {e!r}")
                continue
            if t2 != t:
                flds = [f for f in ("type", "tag", "nesting", "attrs", "map", "level", "children", "content", "markup", "info", "meta", "block", "hidden") if getattr(t2, f) != getattr(t, f)]
                res.fail(f"roundtrip:not-equal:as_upstream={up}", f"{t.type}: fields {flds}: {getattr(t2, flds[0])!r} != {getattr(t, flds[0])!r}" if flds else t.type)
            dnc = t.as_dict(children=False, as_upstream=up)
            for key in d:
                if key != "children" and dnc.get(key) != d[key]:
                    res.fail("as_dict:children-flag-changes-other-keys", f"{t.type}.{key}")
            if set(dnc) != set(d):
                res.fail("as_dict:key-set", f"{sorted(set(dnc) ^ set(d))}")
            if dnc.get("children") is not t.children and dnc.get("children") != t.children:
                res.fail("as_dict:children-false-touched-children", t.type)
            if not t.children:
                try:
                    if Token.from_dict(dnc) != t:
                        res.fail("roundtrip:not-equal:children=False", t.type)
                except Exception as e:  # noqa: BLE001
                    res.fail(f"roundtrip:{type(e).__name__}:children=False", f"{t.type}: {e!r}")
    if res.v:
        return res
    # ---- tree
    check_tree(tokens, res, stats)
    check_tree_detached(tokens, res)
    # ---- rendering repeatable
    before = copy.deepcopy(tokens)
    h1 = md.renderer.render(tokens, md.options, env)
    snap = copy.deepcopy(tokens)
    h2 = md.renderer.render(tokens, md.options, env)
    if h1 != h2:
        res.fail("render:not-repeatable", f"{h1!r} != {h2!r}"[:500])
    if tokens != snap:
        res.fail("render:second-render-changed-tokens", "")
    h0 = md.renderer.render(before, md.options, env)
    if h0 != h1:
        res.fail("render:copy-renders-differently", f"{h0!r} != {h1!r}"[:500])
    for up in (True, False):
        rebuilt = [Token.from_dict(t.as_dict(as_upstream=up)) for t in tokens]
        h3 = md.renderer.render(rebuilt, md.options, env)
        if h3 != h1:
            res.fail(f"render:after-dict-roundtrip:as_upstream={up}", f"{h3!r} != {h1!r}"[:500])
    if md.render(case["src"]) != h1:
        res.fail("render:render-vs-parse+renderer", "")
    res.nt = bool(stats)
    res.cls.extend(stats)
    return res

"""C01 - parsing and rendering are total (no crash, no hang) for every str and configuration."""
from __future__ import annotations

import contextlib
import io
import itertools
import os
import tempfile

from hypothesis import strategies as st

from .. import cfg as C
from .. import gen
from ..runner import Res, lib_frame_of
from ..util import BudgetExceeded, CallCounter

ID = "C01"
LEVEL = "exploration"
RULE = (
    "cases = (document x configuration x cut offsets) from the constructive block/inline generators, corpus "
    "mutation, line soup, hot-character soup and arbitrary Unicode text, each run through render and renderInline "
    "(which include parse/parseInline) on the document, on each cut prefix and without its final newline; plus "
    "bounded-exhaustive enumeration of all documents of <=N lines over the stated line alphabet x {final newline, "
    "none} x 4 configurations, plus raw bytes through the CLI entry point, plus the documented TypeError inputs. "
    "Non-trivial = the full document yields >=2 block tokens or >=3 inline children, or the configuration differs "
    "from the bare preset; distinct = distinct case hash."
)
ASSUMPTIONS = [
    "linkify-it-py is not installable offline: a test-double linkifier is attached through md.linkify where linkify is on",
    "non-termination is decided by a deterministic call budget (re-examination of cases that hit a 30 s wall-clock guard), never by the wall clock itself",
    "surrogate code points are excluded from inputs, as the property states",
]
SHRINK = {"text": ["src"], "list": ["cfg.enable", "cfg.disable", "cuts"], "keys": ["cfg.options"]}

ALPHABET = [
    "", " ", "\t", ">", "> ", "> a", "> a|b", "> -|-", "a|b", "-|-", "|a|", "- a", "-", "- a|b", "  -|-", "1.", "1. a",
    "# h", "#", "```", "~~~", "``` \x0b", "~~~ &#10;", "    c", "[a]: /u", "[a]:", "<div>", "<!--", "===", "---", "a", "  a", "> - a", "> ```",
    "> #", "> [a]: /u", "* * *", "> <div>", "> 1.", ">     c",
]
INLINE_ALPHABET = ["*", "**", "_", "~~", "[", "]", "](u)", "![", "`", "``", "\\`", "a", " ", "<", ">", "&", "\\", "\n", "<http://x.y>", "(", ")", "\"", "&#", ";", ":", "!"]
TYPO_ALPHABET = ["(", ")", "c", "C", "r", "R", "tm", "tM", "Tm", "TM", "p", "+-", "..", ".", "?", "!", ",", "-", "--", " ", "\"", "'", "a", "\n"]
ENUM_CFGS = [
    C.simple("commonmark", enable=["table"]),
    C.simple("js-default"),
    C.simple("zero", enable=["blockquote", "table", "list"]),
    C.simple("js-default", html=True, typographer=True),
    # the zero preset with every optional rule switched on by the caller (options come from the preset, rules from the caller)
    C.simple("zero", enable=list(C.ALL_OPT), typographer=True, html=True),
]


def budget(tier: str) -> dict:
    if tier == "quick":
        return {"examples": 24000, "enum_lines": 3, "cli": 1500}
    return {"examples": 1200000, "enum_lines": 4, "cli": 60000}


@st.composite
def _case(draw):
    d = gen.D(draw)
    k = d.weighted([(92, "doc"), (5, "cli"), (3, "nolinkifier")])
    if k == "cli":
        b = draw(st.binary(max_size=80)) if d.chance(0.5) else gen.any_doc_d(d).encode("utf-8", "ignore")
        if d.chance(0.3) and b:
            i = d.i(0, len(b))
            b = b[:i] + bytes([d.i(128, 255)]) + b[i:]
        if d.chance(0.3):
            # byte order marks and other encoding signatures in front of arbitrary (also malformed) bytes
            b = d.pick([b"\xef\xbb\xbf", b"\xff\xfe", b"\xfe\xff", b"\xff\xfe\x00\x00", b"\x00\x00\xfe\xff", b"+/v8", b"\xf7\x64\x4c", b"\x0e\xfe\xff", b"\xfb\xee\x28", b"\x84\x31\x95\x33"]) + b
        return {"kind": "cli", "hex": b.hex()}
    src = gen.any_doc_d(d)
    cfg = gen.config_d(d)
    if k == "nolinkifier":
        cfg["linkify"] = False
        cfg["options"]["linkify"] = True
        cfg["enable"] = list(cfg["enable"]) + ["linkify"]
        return {"kind": "nolinkifier", "src": src, "cfg": cfg, "cuts": []}
    cuts = sorted({d.i(0, len(src)) for _ in range(d.i(0, 3))}) if src else []
    return {"kind": "doc", "src": src, "cfg": cfg, "cuts": cuts}


def strategy(tier: str):
    # the property's quantifier excludes surrogate code points ("as upstream's fuzzers also do ... the URL-encoding
    # dependency rejects an explicit surrogate pair"): the general generators must not insert them here
    gen.SURROGATE_RATE = 0
    return _case()


def enumerate_cases(tier: str, shard: int, nshards: int):
    n = budget(tier)["enum_lines"]
    idx = 0
    for k in range(1, n + 1):
        for combo in itertools.product(ALPHABET, repeat=k):
            idx += 1
            if idx % nshards != shard:
                continue
            body = "\n".join(combo)
            yield {"kind": "enum", "src": body}
    # inline boundary shapes: every concatenation of <= m tokens of an inline alphabet
    m = 4 if tier == "quick" else 5
    for k in range(1, m + 1):
        for combo in itertools.product(INLINE_ALPHABET, repeat=k):
            idx += 1
            if idx % nshards != shard:
                continue
            yield {"kind": "enum", "src": "".join(combo)}
    # typographic triggers: every concatenation of <= 3 tokens (the typographer is on in the last enumeration config)
    for k in range(1, 4):
        for combo in itertools.product(TYPO_ALPHABET, repeat=k):
            idx += 1
            if idx % nshards != shard:
                continue
            yield {"kind": "enum", "src": "".join(combo)}
    # the pathological families of C20 at moderate sizes, run under a deterministic call budget
    from .c20 import F as FAMILIES

    for name in sorted(FAMILIES):
        for n in (30, 120) if tier == "quick" else (30, 120, 600):
            idx += 1
            if idx % nshards != shard:
                continue
            yield {"kind": "family", "family": name, "n": n}
    # the command-line entry point on every URL of the vocabulary, as autolink and as link destination
    for u in gen.URLS:
        for doc in (f"<{u}>", f"[a]({u})", f"[a]: {u}\n\n[a]"):
            idx += 1
            if idx % nshards != shard:
                continue
            yield {"kind": "cli", "hex": doc.encode("utf-8", "surrogatepass").hex()}
            if idx % 2 == 0:
                yield {"kind": "enum", "src": doc}
    if shard == 0:
        for bad in (None, 1, 1.5, ["a"], {"a": 1}, ("x",)):
            yield {"kind": "typeerror", "arg": "src", "value": repr(bad)}
        for bad in ([], "x", 1, ("a",)):
            yield {"kind": "typeerror", "arg": "env", "value": repr(bad)}


_MDS: dict = {}


def _enum_mds():
    if not _MDS:
        for i, c in enumerate(ENUM_CFGS):
            _MDS[i] = C.build(c)
    return _MDS


def _sig(e: BaseException) -> str:
    fr = lib_frame_of(e)
    where = f"{fr[0]}:{fr[1]}" if fr else "outside-library"
    return f"exception:{type(e).__name__}@{where}"


def _try(res: Res, fn, src: str, what: str, allowed=()) -> object:
    try:
        return fn(src)
    except allowed:
        return None
    except RecursionError as e:
        res.fail("exception:RecursionError", f"{what}: {e!r}")
    except Exception as e:  # noqa: BLE001
        res.fail(_sig(e), f"{what} raised {type(e).__name__}: {e}")
    return None


def check(case) -> Res:
    res = Res()
    kind = case.get("kind", "doc")
    if kind == "enum":
        src = case["src"]
        for i, md in _enum_mds().items():
            for s in (src, src + "\n"):
                _try(res, md.render, s, f"render cfg#{i}")
        toks = None
        res.nt = src.count("\n") >= 1
        res.cls.append("enum")
        return res
    if kind == "family":
        from .c20 import F as FAMILIES

        src = FAMILIES[case["family"]](case["n"])
        limit = 20000 * (len(src) + 50)
        for i, md in _enum_mds().items():
            cc = CallCounter(limit)
            try:
                cc.run(md.render, src)
            except BudgetExceeded:
                res.fail("nontermination:call-budget", f"render cfg#{i} of family {case['family']} (n={case['n']}, {len(src)} characters) exceeded {limit} library calls")
                break
            except RecursionError as e:
                res.fail("exception:RecursionError", f"family {case['family']} n={case['n']}: {e!r}")
                break
            except Exception as e:  # noqa: BLE001
                res.fail(_sig(e), f"family {case['family']} n={case['n']} cfg#{i}: {type(e).__name__}: {e}")
        res.nt = True
        res.cls.append("family")
        return res
    if kind == "typeerror":
        from markdown_it import MarkdownIt

        md = MarkdownIt()
        val = eval(case["value"])  # noqa: S307 - literals produced by enumerate_cases
        for name in ("parse", "render", "parseInline", "renderInline"):
            fn = getattr(md, name)
            try:
                if case["arg"] == "src":
                    fn(val)
                else:
                    fn("a", val)
            except TypeError:
                continue
            except Exception as e:  # noqa: BLE001
                res.fail(f"typeerror-contract:{name}:{case['arg']}:{type(e).__name__}", f"{name}({case['arg']}={case['value']}) raised {type(e).__name__} instead of TypeError")
                continue
            res.fail(f"typeerror-contract:{name}:{case['arg']}:none", f"{name}({case['arg']}={case['value']}) did not raise TypeError")
        res.cls.append("typeerror")
        res.nt = True
        return res
    if kind == "cli":
        from markdown_it.cli import parse as cli

        data = bytes.fromhex(case["hex"])
        fd, path = tempfile.mkstemp(prefix="c01cli", dir=os.environ.get("VERIF_TMP") or None)
        try:
            with os.fdopen(fd, "wb") as f:
                f.write(data)
            # a real standard output encodes what is printed: use a strict UTF-8 text stream, not a StringIO
            out = io.TextIOWrapper(io.BytesIO(), encoding="utf-8", errors="strict")
            try:
                with contextlib.redirect_stdout(out):
                    rc = cli.main([path])
                    out.flush()
                if rc != 0:
                    res.fail("cli:nonzero", f"cli main returned {rc}")
            except SystemExit as e:
                res.fail("cli:SystemExit", f"cli exited with {e.code}")
            except Exception as e:  # noqa: BLE001
                res.fail("cli:" + _sig(e), f"cli raised {type(e).__name__}: {e}")
        finally:
            os.unlink(path)
        res.cls.append("cli")
        res.nt = len(data) > 3
        return res
    src = case["src"]
    cfg = case["cfg"]
    md = C.build(cfg)
    allowed = (ModuleNotFoundError,) if kind == "nolinkifier" else ()
    variants = [src]
    for c in case.get("cuts") or []:
        if 0 <= c < len(src):
            variants.append(src[:c])
    if src.endswith("\n"):
        variants.append(src[:-1])
    first = True
    for s in variants:
        if first:
            toks = _try(res, md.parse, s, "parse", allowed)
            if toks is not None:
                nblock = sum(1 for t in toks if t.nesting >= 0)
                nin = max((len(t.children or []) for t in toks), default=0)
                res.nt = nblock >= 2 or nin >= 3 or bool(cfg["options"] or cfg["enable"] or cfg["disable"] or cfg["linkify"])
            first = False
        _try(res, md.render, s, "render", allowed)
        _try(res, md.renderInline, s, "renderInline", allowed)
    res.cls.append(kind)
    res.cls.append("preset:" + cfg["preset"])
    if len(variants) > 1:
        res.cls.append("has_prefix_variants")
    if cfg["enable"] or cfg["disable"]:
        res.cls.append("rule_subset")
    if cfg["linkify"]:
        res.cls.append("linkify_double")
    if "\t" in src:
        res.cls.append("has_tab")
    if not src.endswith("\n"):
        res.cls.append("no_final_newline")
    return res


def confirm_hang(case):
    """Deterministic re-examination of a case that hit the wall-clock guard."""
    if case.get("kind", "doc") not in ("doc", "nolinkifier"):
        return None
    src = case["src"]
    md = C.build(case["cfg"])
    limit = 20000 * (len(src) + 50)
    cc = CallCounter(limit)
    try:
        cc.run(md.render, src)
    except BudgetExceeded:
        return ("nontermination:call-budget", f"render exceeded {limit} library calls on a {len(src)}-character input")
    except Exception:  # noqa: BLE001
        return None
    return None


def evidence_extra(tier, tot):
    n = budget(tier)["enum_lines"]
    total = sum(len(ALPHABET) ** k for k in range(1, n + 1))
    m = 4 if tier == "quick" else 5
    total_inline = sum(len(INLINE_ALPHABET) ** k for k in range(1, m + 1))
    return {
        "enumerated_documents": total + total_inline,
        "enumeration": f"all documents of 1..{n} lines over a {len(ALPHABET)}-shape line alphabet ({total}) and all concatenations of 1..{m} tokens over a {len(INLINE_ALPHABET)}-token inline alphabet ({total_inline}), each x {{with, without}} final newline x {len(ENUM_CFGS)} configurations (complete)",
        "exhaustive_subspace": True,
    }


def extra_phase(tier, seed, shard, nshards, coll):
    """thorough tier: an atheris (libFuzzer) campaign with this module's oracle inside the target."""
    from ..fuzz import atheris_phase

    atheris_phase(__import__("sys").modules[__name__], tier, seed, shard, nshards, coll, int(__import__("os").environ.get("VERIF_ATHERIS_SECONDS", "600")))

"""C18 - inline text means the same in every block context; render options are inert."""
from __future__ import annotations

import copy
import re

from hypothesis import strategies as st

from .. import cfg as C
from .. import gen
from ..runner import Res
from ..util import dump, first_diff, walk_tokens

ID = "C18"
LEVEL = "exploration"
RULE = (
    "three clauses: (1) any generated source that block-parses to a single paragraph holding that source: parseInline "
    "gives one inline token with the paragraph's children and render == <p> + renderInline + </p>; (2) one-line inline "
    "texts built from inline fragments, embedded as '# t', '- t', 'N. t', '> t', '| t |'+delimiter row under the "
    "stated guards: same content and children as in the paragraph; (3) all documents x all 16 combinations of "
    "xhtmlOut/breaks/langPrefix/highlight x presets: token streams equal, and the HTML differs only in the documented "
    "place (relations made exact on a copy of the stream whose raw-HTML contents are replaced by alphanumeric "
    "nonces). Non-trivial = (1)/(2) the text has >= 2 inline constructs (children count >= 3), (3) the document has a "
    "fence with info or a soft break or a void element; distinct = distinct case hash."
)
ASSUMPTIONS = ["test-double linkifier where linkify is on", "(3) renders through md.renderer.render on nonce-substituted copies of the token stream"]
SHRINK = {"text": ["src"], "list": ["cfg.enable", "cfg.disable"], "keys": ["cfg.options"]}

CFGS = [
    C.simple("commonmark"), C.simple("js-default"), C.simple("js-default", typographer=True, html=True), C.simple("commonmark", enable=["table", "strikethrough"]),
    C.simple("js-default", typographer=True, quotes="«»‹›"), C.simple("js-default", linkify=True), C.simple("zero", enable=["emphasis", "link", "backticks", "list", "blockquote", "heading", "table"]),
    C.simple("commonmark", typographer=True, enable=["replacements", "smartquotes"]),
]
TYPO = ["(c)", "(tm)", "...", "--", "---", "+-", "????", "!!!!", "\"q\"", "'s", ",,"]


def budget(tier: str) -> dict:
    return {"examples": 30000 if tier == "quick" else 1000000}


@st.composite
def _case(draw):
    d = gen.D(draw)
    kind = d.weighted([(3, "para"), (4, "context"), (4, "options")])
    cfg = gen.maybe_late(d, d.pick(CFGS), 0.3) if d.chance(0.75) else gen.config_d(d)
    if kind == "para":
        k = d.i(0, 9)
        if k < 6:
            s = gen.inline(d, 0, False, 6)
        elif k < 8:
            s = gen.any_doc_d(d)
        else:
            s = "".join(gen.tight_nest(d) + d.pick(["", " "]) for _ in range(d.i(1, 3)))
        if d.chance(0.3):
            s += " " + d.pick(TYPO) + " " + d.pick(TYPO)
        return {"kind": kind, "src": s, "cfg": cfg}
    if kind == "context":
        t = gen.inline(d, 0, True, 5) if d.chance(0.8) else "".join(gen.tight_nest(d) for _ in range(d.i(1, 2)))
        if d.chance(0.3):
            t += " " + d.pick(TYPO)
        if d.chance(0.6):
            t = d.pick(["a", "x ", "Zed ", "7 ", "é"]) + t
        return {"kind": kind, "src": t.strip(), "cfg": cfg, "num": d.pick([1, 7, 10, 123456789])}
    src = gen.any_doc_d(d)
    if d.chance(0.4):
        src += d.pick(["\n```py x\nc & <d>\n```\n", "\n~~~ a&amp;b \\*c\nx\n~~~\n", "\na\nb  \nc\\\nd\n", "\n***\n\n![i\nj](s)\n", "\n- a\n  b\n\n```\n\n```\n"])
    return {"kind": kind, "src": src, "cfg": cfg}


def strategy(tier: str):
    return _case()


def is_single_paragraph(toks, s: str) -> bool:
    return len(toks) == 3 and toks[0].type == "paragraph_open" and toks[1].type == "inline" and toks[1].content == s and toks[2].type == "paragraph_close"


def check_para(case, res: Res, md) -> None:
    s = case["src"]
    env: dict = {}
    toks = md.parse(s, env)
    if not is_single_paragraph(toks, s) or env:
        res.cls.append("para:not-a-single-paragraph")
        return
    res.cls.append("para:checked")
    pi = md.parseInline(s)
    if not (len(pi) == 1 and pi[0].type == "inline"):
        res.fail("para:parseInline-shape", f"{s!r}: {[t.type for t in pi]}")
        return
    a, b = dump(pi[0].children or []), dump(toks[1].children or [])
    if a != b:
        res.fail("para:parseInline-children-differ", f"{s!r}: {first_diff(a, b)}")
    if pi[0].content != s:
        res.fail("para:parseInline-content", f"{pi[0].content!r} != {s!r}")
    h = md.render(s)
    hi = md.renderInline(s)
    if h != "<p>" + hi + "</p>\n":
        res.fail("para:renderInline-differs", f"{s!r}: render={h!r} renderInline={hi!r}")
    res.nt = len(toks[1].children or []) >= 3


def check_context(case, res: Res, md) -> None:
    t = case["src"]
    if not t or "\n" in t or t != t.strip():
        res.cls.append("context:outside-domain")
        return
    env: dict = {}
    toks = md.parse(t, env)
    if not is_single_paragraph(toks, t) or env:
        res.cls.append("context:not-a-single-paragraph")
        return
    base = dump(toks[1].children or [])
    base_html = md.renderer.render(toks[1:2], md.options, {})
    active = md.get_active_rules()["block"]
    alnum0 = t[0].isascii() and t[0].isalnum()
    ctxs = {}
    if "heading" in active and not t.endswith("#"):
        ctxs["heading"] = ("# " + t, 1, 3)
    if "list" in active and alnum0:
        ctxs["bullet"] = ("- " + t, 3, 7)
        ctxs["ordered"] = (f"{case.get('num', 7)}. " + t, 3, 7)
    if "blockquote" in active and alnum0:
        ctxs["quote"] = ("> " + t, 2, 5)
    if "table" in active and not re.search(r"[|\\`]", t):
        ctxs["cell"] = ("| " + t + " |\n|-|", 4, 9)
    res.cls.append("context:checked")
    res.nt = len(base) >= 3
    for name, (doc, idx, ntoks) in ctxs.items():
        e2: dict = {}
        T = md.parse(doc, e2)
        tok = T[idx] if len(T) == ntoks and idx < len(T) else None
        if tok is None or tok.type != "inline":
            res.fail(f"context:{name}:shape", f"{doc!r} -> {[x.type for x in T][:12]}")
            continue
        if tok.content != t:
            res.fail(f"context:{name}:content", f"{doc!r}: inline content {tok.content!r} != {t!r}")
            continue
        got = dump(tok.children or [])
        if got != base:
            res.fail(f"context:{name}:children-differ", f"{doc!r}: {first_diff(got, base)}")
            continue
        if md.renderer.render([tok], md.options, {}) != base_html:
            res.fail(f"context:{name}:html-differs", doc)
    # all contexts in one document (a heading repeated as a paragraph, the same text in several cells ...): the meaning of
    # t does not depend on what else the document holds
    if len(ctxs) >= 2 and not res.v:
        parts = [t] + [doc for doc, _i, _n in ctxs.values()] + ([("| " + t + " | " + t + " |\n|-|-|\n| " + t + " | " + t + " |")] if "cell" in ctxs else []) + [t]
        T = md.parse("\n\n".join(parts) + "\n", {})
        inl = [x for x in T if x.type == "inline"]
        expected_n = 2 + len(ctxs) + (4 if "cell" in ctxs else 0)
        if len(inl) != expected_n:
            res.fail("context:together:shape", f"{len(inl)} inline containers, expected {expected_n}: {[x.type for x in T][:30]}")
        else:
            for j, tok in enumerate(inl):
                if tok.content != t:
                    res.fail("context:together:content", f"inline container #{j}: {tok.content!r} != {t!r}")
                    break
                got = dump(tok.children or [])
                if got != base:
                    res.fail("context:together:children-differ", f"inline container #{j} of the combined document: {first_diff(got, base)}")
                    break
                if md.renderer.render([tok], md.options, {}) != base_html:
                    res.fail("context:together:html-differs", f"inline container #{j}")
                    break


def _void_present(tokens) -> bool:
    return any(t.type in ("hr", "hardbreak", "image") or (t.type == "softbreak") for t in walk_tokens(tokens))


def _nonce(src: str, tag: str) -> str:
    """An alphanumeric marker that does not occur in the source (Hypothesis also feeds string
    constants of this module back as inputs, so fixed markers are not safe)."""
    i = 0
    while True:
        n = f"{tag}{i}Q"
        if n not in src and n.lower() not in src.lower():
            return n
        i += 1


def _nonce_copy(tokens, soft: bool, NH: str = "HTMLNONCE", NS: str = "SOFTBREAKNONCEZ"):
    toks = copy.deepcopy(tokens)
    n = [0]

    def rec(ts, in_image=False):
        for t in ts:
            if t.type in ("html_block", "html_inline"):
                n[0] += 1
                t.content = f"{NH}{n[0]}Z" + ("\n" if t.type == "html_block" and t.content.endswith("\n") else "")
            if soft and t.type == "softbreak" and not in_image:
                t.type = "text"
                t.content = NS
            if t.children:
                rec(t.children, in_image or t.type == "image")

    rec(toks)
    return toks


def check_options(case, res: Res) -> None:
    from markdown_it.common.utils import escapeHtml

    src = case["src"]
    cfg = case["cfg"]
    base_md = C.build(cfg)
    env0: dict = {}
    base = base_md.parse(src, env0)
    base_d = dump(base)
    fences = [t for t in base if t.type == "fence"]
    res.nt = bool(fences and any(f.info.strip() for f in fences)) or _void_present(base)
    res.cls.append("options:checked")
    if fences:
        res.cls.append("options:has-fence")
    # ---- tokens do not depend on renderer-only options
    calls: list = []
    NH, NS, LP1, LP2, HA, HB = (_nonce(src, t) for t in ("Xh", "Xs", "Xp", "Xq", "Xa", "Xb"))

    def hl(content, lang, attrs):
        calls.append((content, lang, attrs))
        return HA + escapeHtml(content) + HB

    for xh in (False, True):
        for br in (False, True):
            for lp in ("language-", LP1):
                for hi in (None, hl):
                    c2 = copy.deepcopy(cfg)
                    if (xh + br) % 2:
                        # set after construction through attribute access (one of the three documented routes)
                        m2 = C.build(c2)
                        m2.options.xhtmlOut = xh
                        m2.options.breaks = br
                        m2.options.langPrefix = lp
                        if (m2.options["xhtmlOut"], m2.options["breaks"], m2.options["langPrefix"]) != (xh, br, lp):
                            res.fail("options:attribute-route", f"after options.xhtmlOut={xh}, options.breaks={br}, options.langPrefix={lp!r}: {dict(m2.options)}"[:400])
                            return
                    else:
                        c2["options"].update(xhtmlOut=xh, breaks=br, langPrefix=lp)
                        m2 = C.build(c2)
                    if hi is not None:
                        m2.options["highlight"] = hi
                    e2: dict = {}
                    t2 = dump(m2.parse(src, e2))
                    if t2 != base_d or e2 != env0:
                        res.fail(
                            "options:tokens-depend-on-render-option",
                            f"xhtmlOut={xh} breaks={br} langPrefix={lp!r} highlight={'set' if hi else None}: {first_diff(t2, base_d)}",
                        )
                        return
    # ---- the same options given to an instance that was already used (in place) must act as at construction
    h_a = C.build(dict(cfg, late=False)).render(src)
    h_b = C.build(dict(cfg, late=True)).render(src)
    if h_a != h_b:
        res.fail("options:changed-in-place-differs-from-construction", f"{h_b!r} != {h_a!r}"[:500])
    # ---- HTML relations on nonce-substituted copies
    opts = base_md.options
    R = base_md.renderer.render
    plain = _nonce_copy(base, False, NH, NS)

    def with_opts(**kw):
        from markdown_it.utils import OptionsDict

        o = dict(opts)
        o.update(kw)
        return OptionsDict(o)

    out_h = R(copy.deepcopy(plain), with_opts(xhtmlOut=False, highlight=None), {})
    out_x = R(copy.deepcopy(plain), with_opts(xhtmlOut=True, highlight=None), {})
    if re.sub(r"<(hr|br|img)([^<>]*?) />", r"<\1\2>", out_x) != out_h:
        res.fail("options:xhtmlOut-relation", f"{out_x!r} vs {out_h!r}"[:500])
    if re.sub(r"<(?:hr|br|img)[^<>]*?>", "", out_h).count(" />"):
        pass
    soft = _nonce_copy(base, True, NH, NS)
    for xh in (False, True):
        brk = "<br />\n" if xh else "<br>\n"
        o_soft = R(copy.deepcopy(soft), with_opts(xhtmlOut=xh, breaks=False, highlight=None), {})
        o_f = R(copy.deepcopy(plain), with_opts(xhtmlOut=xh, breaks=False, highlight=None), {})
        o_t = R(copy.deepcopy(plain), with_opts(xhtmlOut=xh, breaks=True, highlight=None), {})
        if o_soft.replace(NS, "\n") != o_f:
            res.fail("options:breaks-false-relation", f"{o_f!r}"[:400])
        if o_soft.replace(NS, brk) != o_t:
            res.fail("options:breaks-true-relation", f"{o_t!r} vs {o_soft!r}"[:500])
    o1 = R(copy.deepcopy(plain), with_opts(langPrefix=LP1, highlight=None), {})
    o2 = R(copy.deepcopy(plain), with_opts(langPrefix=LP2, highlight=None), {})
    if o1.replace(LP1, LP2) != o2:
        res.fail("options:langPrefix-relation", f"{o1!r} vs {o2!r}"[:500])
    n_all = o1.count(LP1)
    n_cls = o1.count('<pre><code class="' + LP1)
    n_info = sum(1 for f in fences if re.match(r"[A-Za-z0-9]", f.info.strip()))
    if n_all != n_cls or n_cls > len(fences) or n_cls < n_info:
        res.fail("options:langPrefix-placement", f"prefix occurs {n_all}x, {n_cls}x after <pre><code class=\", fences={len(fences)} with plain info={n_info}")
    calls.clear()
    o_b = R(copy.deepcopy(plain), with_opts(highlight=None), {})
    o_hl = R(copy.deepcopy(plain), with_opts(highlight=hl), {})
    if o_hl.replace(HA, "").replace(HB, "") != o_b:
        res.fail("options:highlight-relation", f"{o_hl!r} vs {o_b!r}"[:500])
    if [c[0] for c in calls] != [f.content for f in fences]:
        res.fail("options:highlight-calls", f"called with contents {[c[0] for c in calls]!r}, fences hold {[f.content for f in fences]!r}"[:500])
    else:
        for (content, lang, attrs), f in zip(calls, fences):
            info = f.info
            if "&" in info or "\\" in info:
                continue
            parts = info.strip().split(maxsplit=1)
            exp = (parts[0] if parts else "", parts[1] if len(parts) == 2 else "")
            if (lang, attrs) != exp:
                res.fail("options:highlight-arguments", f"info {info!r}: called with lang={lang!r} attrs={attrs!r}, expected {exp!r}")
    o_e = R(copy.deepcopy(plain), with_opts(highlight=lambda c, l, a: ""), {})
    if o_e != o_b:
        res.fail("options:highlight-empty-changes-output", "")
    if fences:
        # a highlighter may itself use the instance (e.g. to preview a markdown fence): still only the fence body changes
        def hl_reentering(content, lang, attrs):
            base_md.renderInline("x *y* `z`")
            base_md.render("# in\n\n```py\nq\n```\n\ntext\n")
            return HA + escapeHtml(content) + HB

        o_re = R(copy.deepcopy(plain), with_opts(highlight=hl_reentering), {})
        if o_re != o_hl:
            res.fail("options:highlight-reentering-changes-output", f"{o_re!r} vs {o_hl!r}"[:500])


def check(case) -> Res:
    res = Res()
    kind = case["kind"]
    if kind == "options":
        check_options(case, res)
        return res
    cfg = case["cfg"]
    if kind == "context" and cfg["options"].get("maxNesting", 100) < 10:
        # the nesting cut-off (C20) is not what this clause is about: contexts add up to 4 levels
        cfg = dict(cfg, options={k: v for k, v in cfg["options"].items() if k != "maxNesting"})
    md = C.build(cfg)
    if kind == "para":
        check_para(case, res, md)
    else:
        check_context(case, res, md)
    return res

"""C10 - rule and option switches have exactly their documented effect."""
from __future__ import annotations

import copy
import re

from hypothesis import strategies as st

from .. import cfg as C
from .. import gen
from ..runner import Res
from ..util import dump, first_diff, walk_tokens

ID = "C10"
LEVEL = "exploration"
RULE = (
    "cases = (document x configuration x option values); four clauses per case: (1) reachability - every token kind "
    "present must have an enabled producer according to an independent rule->kind table and the harness's own model "
    "of the configuration; (2) table / strikethrough are conservative extensions on documents without '|' / '~~'; "
    "(3) inline_definitions/store_labels only add definition tokens and label metadata; (4) the three option routes "
    "(constructor, item assignment, attribute assignment) are indistinguishable. Non-trivial = the configuration "
    "switches >= 1 rule whose trigger characters occur in the document; distinct = distinct case hash."
)
ASSUMPTIONS = [
    "the active rule set is computed by the harness from the preset tables and the enable/disable lists (not read back from the instance; C11 covers reporting)",
    "the attribute route is exercised for the options that define attribute access on OptionsDict (decided by introspection)",
]
SHRINK = {"text": ["src"], "list": ["cfg.enable", "cfg.disable"], "keys": ["cfg.options", "route_opts"]}

PRESET_RULES = {
    "commonmark": {"code", "fence", "blockquote", "hr", "list", "reference", "html_block", "heading", "lheading", "newline", "escape", "backticks", "emphasis", "link", "image", "autolink", "html_inline", "entity"},
    "zero": set(),
}
PRESET_RULES["js-default"] = PRESET_RULES["default"] = PRESET_RULES["commonmark"] | {"table", "strikethrough", "linkify", "replacements", "smartquotes"}
PRESET_HTML = {"commonmark": True, "js-default": False, "default": False, "zero": False}
TRIGGERS = {
    "table": "|", "code": "    ", "fence": "`~", "blockquote": ">", "hr": "-*_", "list": "-+*0123456789", "reference": "[", "html_block": "<",
    "heading": "#", "lheading": "=-", "newline": "\n", "escape": "\\", "backticks": "`", "strikethrough": "~", "emphasis": "*_", "link": "[",
    "image": "!", "autolink": "<", "html_inline": "<", "entity": "&", "replacements": "(.+-?!,", "smartquotes": "\"'",
}


def producers_ok(kind: str, active: set, html: bool, opts: dict, linkify_on: bool) -> bool:
    if kind in ("paragraph_open", "paragraph_close", "inline", "text"):
        return True
    if kind.startswith(("table_", "thead_", "tbody_", "tr_", "th_", "td_")):
        return "table" in active
    if kind == "code_block":
        return "code" in active
    if kind == "fence":
        return "fence" in active
    if kind.startswith("blockquote_"):
        return "blockquote" in active
    if kind == "hr":
        return "hr" in active
    if kind.startswith(("bullet_list_", "ordered_list_", "list_item_")):
        return "list" in active
    if kind == "html_block":
        return "html_block" in active and html
    if kind.startswith("heading_"):
        return "heading" in active or "lheading" in active
    if kind == "definition":
        return "reference" in active and bool(opts.get("inline_definitions"))
    if kind == "code_inline":
        return "backticks" in active
    if kind in ("em_open", "em_close", "strong_open", "strong_close"):
        return "emphasis" in active
    if kind in ("s_open", "s_close"):
        return "strikethrough" in active
    if kind in ("link_open", "link_close"):
        return "link" in active or "autolink" in active or (linkify_on and "linkify" in active)
    if kind == "image":
        return "image" in active
    if kind == "html_inline":
        return "html_inline" in active and html
    if kind == "softbreak":
        return "newline" in active
    if kind == "hardbreak":
        return "newline" in active or "escape" in active
    return False  # unknown kind: nothing enabled is documented to produce it


def budget(tier: str) -> dict:
    return {"examples": 30000 if tier == "quick" else 1000000}


@st.composite
def _case(draw):
    d = gen.D(draw)
    src = gen.any_doc_d(d)
    if d.chance(0.3):
        src = src.replace("|", "")
    if d.chance(0.3):
        src = src.replace("~~", "~")
    cfg = gen.config_d(d, bare_bias=0.1)
    ro: dict = {}
    for k in ["html", "typographer", "breaks", "xhtmlOut", "linkify"]:
        if d.chance(0.4):
            ro[k] = d.chance(0.5)
    if d.chance(0.3):
        ro["langPrefix"] = d.pick(gen.LANG_PREFIXES)
    if d.chance(0.3):
        ro["quotes"] = d.pick(gen.QUOTES)
    if d.chance(0.3):
        ro["maxNesting"] = d.pick([1, 2, 5, 20, 100])
    if d.chance(0.3):
        ro["inline_definitions"] = d.chance(0.7)
    if d.chance(0.3):
        ro["store_labels"] = d.chance(0.7)
    if ro.get("linkify"):
        ro["linkify"] = False  # no linkifier attached on this route test
    late = None
    if cfg["preset"] in ("commonmark", "zero") and not cfg["linkify"] and d.chance(0.5):
        # the instance is first built from another preset and used, then reconfigured
        late = d.pick(["default", "js-default", "commonmark"])
    # the post-processing steps that merge text fragments may be switched off for the conservative-extension clause
    # (the quantifier keeps only the fallback rules 'paragraph' and 'text'): an extension must not leave traces that
    # only the merging hides
    post_off = d.pick([["text_join", "fragments_join"], ["fragments_join"], ["text_join"], ["balance_pairs", "fragments_join", "text_join"]]) if d.chance(0.25) else []
    return {"src": src, "cfg": cfg, "route_opts": ro, "late": late, "unknown_pos": d.i(0, 5) if d.chance(0.25) else None, "post_off": post_off}


def strategy(tier: str):
    return _case()


def _off(md, names):
    if names:
        md.disable(list(names))
    return md


def strip_defs(ts):
    out = []
    for t in ts:
        if t["type"] == "definition":
            continue
        t = dict(t)
        t["meta"] = {k: v for k, v in (t["meta"] or {}).items() if k != "label"}
        if t["children"]:
            t["children"] = strip_defs(t["children"])
        out.append(t)
    return out


def _norm_html(h: str) -> str:
    return re.sub(r">\n+", ">", h)


def check(case) -> Res:
    from markdown_it import MarkdownIt
    from markdown_it.utils import OptionsDict

    res = Res()
    src = case["src"]
    cfg = case["cfg"]
    preset = cfg["preset"]
    # ---- (1) reachability
    active = set(PRESET_RULES[preset]) | set(cfg["enable"])
    if cfg["linkify"]:
        active.add("linkify")
    active -= set(cfg["disable"])
    html = cfg["options"].get("html", PRESET_HTML[preset])
    late = case.get("late")
    if late and preset in ("commonmark", "zero") and not cfg["linkify"]:
        md = MarkdownIt(late)
        md.render(src)
        md.render("- a *b* `c` ~~d~~\n\n| t |\n|---|\n\n> q [l](u) ![i](s) <http://a.b> &amp;\n\n# h\n")
        md.configure(preset, cfg["options"] or None)
        if cfg["enable"]:
            md.enable(list(cfg["enable"]))
        if cfg["disable"]:
            md.disable(list(cfg["disable"]))
        res.cls.append("reconfigured-after-use")
    else:
        md = C.build(cfg)
        if case.get("unknown_pos") is not None and (cfg["enable"] or cfg["disable"]):
            # the same switches once more, mixed with a name no ruler knows and ignoreInvalid=True:
            # unknown names are skipped, the known ones are still switched
            md = C.build(dict(cfg, enable=[], disable=[]))
            for kind in ("enable", "disable"):
                names = list(cfg[kind])
                if names:
                    names.insert(case["unknown_pos"] % (len(names) + 1), "verif_no_such_rule")
                    getattr(md, kind)(names, True)
            res.cls.append("switches-with-ignored-unknown-name")
    env: dict = {}
    toks = md.parse(src, env)
    kinds = {t.type for t in walk_tokens(toks)}
    for k in sorted(kinds):
        if not producers_ok(k, active, bool(html), cfg["options"], bool(cfg["linkify"])):
            res.fail(f"unreachable-kind:{k}", f"token kind {k} present although no producing rule/option is on (active={sorted(active)}, html={html})")
    if "reference" not in active and env.get("references"):
        res.fail("unreachable-kind:env-references", f"references recorded without the reference rule: {env.get('references')}")
    if preset == "zero" and not cfg["enable"] and not cfg["linkify"]:
        extra = kinds - {"paragraph_open", "inline", "paragraph_close", "text"}
        if extra:
            res.fail("zero-preset-extra-kinds", sorted(extra))
    switched = set(cfg["enable"]) ^ set(cfg["disable"])
    res.nt = any(any(ch in src for ch in TRIGGERS.get(r, "")) for r in switched)
    # ---- (2) conservative extensions
    base = copy.deepcopy(cfg)
    post_off = case.get("post_off") or []
    if post_off:
        res.cls.append("ext:text-merging-steps-off")
    if "|" not in src:
        a = copy.deepcopy(base); a["enable"] = [r for r in a["enable"] if r != "table"]; a["disable"] = list(set(a["disable"]) | {"table"})
        b = copy.deepcopy(base); b["disable"] = [r for r in b["disable"] if r != "table"]; b["enable"] = list(a["enable"]) + ["table"]
        ea: dict = {}; eb: dict = {}
        ta = dump(_off(C.build(a), post_off).parse(src, ea)); tb = dump(_off(C.build(b), post_off).parse(src, eb))
        if ta != tb or ea != eb:
            res.fail("table-not-conservative", f"no '|' in {src!r}: {first_diff(ta, tb)}")
        res.cls.append("ext:table")
    if "~~" not in src:
        a = copy.deepcopy(base); a["enable"] = [r for r in a["enable"] if r != "strikethrough"]; a["disable"] = list(set(a["disable"]) | {"strikethrough"})
        b = copy.deepcopy(base); b["disable"] = [r for r in b["disable"] if r != "strikethrough"]; b["enable"] = list(a["enable"]) + ["strikethrough"]
        ta = dump(_off(C.build(a), post_off).parse(src)); tb = dump(_off(C.build(b), post_off).parse(src))
        if ta != tb:
            res.fail("strikethrough-not-conservative", f"no '~~' in {src!r}: {first_diff(ta, tb)}")
        res.cls.append("ext:strikethrough")
    # ---- (3) inline_definitions / store_labels
    off = copy.deepcopy(cfg); off["options"] = dict(off["options"], inline_definitions=False, store_labels=False)
    for combo in ({"inline_definitions": True}, {"store_labels": True}, {"inline_definitions": True, "store_labels": True}):
        on = copy.deepcopy(off); on["options"].update(combo)
        e1: dict = {}; e2: dict = {}
        m1 = C.build(off); m2 = C.build(on)
        t1 = dump(m1.parse(src, e1)); t2 = dump(m2.parse(src, e2))
        name = "+".join(sorted(combo))
        if strip_defs(t2) != strip_defs(t1):
            res.fail(f"{name}:tokens-changed", first_diff(strip_defs(t2), strip_defs(t1)))
        if e1 != e2:
            res.fail(f"{name}:env-changed", f"{e1!r} != {e2!r}"[:500])
        h1 = m1.render(src); h2 = m2.render(src)
        if _norm_html(h1) != _norm_html(h2):
            res.fail(f"{name}:html-changed", f"{h1!r} != {h2!r}"[:500])
        if any(t["type"] == "definition" for t in t2):
            res.cls.append("has_definition_token")
        if "inline_definitions" in combo and "store_labels" not in combo:
            if any(t["type"] == "definition" for t in t2) != bool(e2.get("references") or e2.get("duplicate_refs")):
                pass
    # ---- (5) configured after use == configured at construction
    e_a: dict = {}
    e_b: dict = {}
    m_a = C.build(dict(cfg, late=False))
    m_b = C.build(dict(cfg, late=True))
    t_a, t_b = dump(m_a.parse(src, e_a)), dump(m_b.parse(src, e_b))
    if t_a != t_b or e_a != e_b:
        res.fail("late-configuration:tokens-differ", f"options/rules applied to a used instance vs at construction: {first_diff(t_b, t_a)}")
    elif m_a.render(src) != m_b.render(src):
        res.fail("late-configuration:html-differs", f"{m_b.render(src)!r} != {m_a.render(src)!r}"[:500])
    # ---- (4) option routes
    ro = case.get("route_opts") or {}
    if ro:
        m_ctor = MarkdownIt(preset, ro)
        m_item = MarkdownIt(preset)
        for k, v in ro.items():
            m_item.options[k] = v
        m_attr = MarkdownIt(preset)
        for k, v in ro.items():
            if isinstance(getattr(OptionsDict, k, None), property):
                setattr(m_attr.options, k, v)
            else:
                m_attr.options[k] = v
        ref_opts = dict(m_ctor.options)
        ref_t = dump(m_ctor.parse(src)); ref_h = m_ctor.render(src)
        for name, m in (("item", m_item), ("attribute", m_attr)):
            if dict(m.options) != ref_opts:
                res.fail(f"route:{name}:options-differ", f"{dict(m.options)!r} != {ref_opts!r}"[:500])
            if dump(m.parse(src)) != ref_t:
                res.fail(f"route:{name}:tokens-differ", first_diff(dump(m.parse(src)), ref_t))
            if m.render(src) != ref_h:
                res.fail(f"route:{name}:html-differ", "")
        for k, v in ro.items():
            if isinstance(getattr(OptionsDict, k, None), property) and getattr(m_ctor.options, k) != v:
                res.fail(f"route:attribute-read:{k}", f"options.{k} reads {getattr(m_ctor.options, k)!r}, set {v!r}")
        res.cls.append("routes")
    res.cls.append("preset:" + preset)
    return res

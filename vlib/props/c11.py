"""C11 - rule management is coherent over any history, including failed calls."""
from __future__ import annotations

import copy

from hypothesis import strategies as st

from .. import gen
from ..runner import Res
from ..util import dump, first_diff

ID = "C11"
LEVEL = "exploration"
RULE = (
    "cases = histories (lists of operations, generated and shrunk as one value) of two kinds: (a) on a bare Ruler over "
    "6 rule names + 2 never-registered names + duplicates and 3 chain names: push/before/after/at with alt lists, "
    "enable/enableOnly/disable with str or list arguments, known/unknown names mixed, ignoreInvalid on/off, "
    "getRules(chain) as an explicit operation (so histories with and without a compiled cache between mutations "
    "occur), full observations; (b) on MarkdownIt: enable/disable/configure/reset_rules blocks (normal and raising "
    "exit)/parses. Oracle = explicit reference model (ordered list of rule records with first-match lookup); after "
    "every step the reported sets must equal the model, at every observation the applied function lists of all "
    "chains must equal the model's, raising calls may leave either of the two documented states. Non-trivial = the "
    "history has a mutation after a getRules/parse and at least one raising call; distinct = distinct case hash."
)
ASSUMPTIONS = [
    "a raising enable/disable/enableOnly may leave the state before the call or the state after the names preceding the offending one (so an atomic implementation would not be flagged)",
    "MarkdownIt.configure with the default/js-default presets leaves the rule sets unchanged (those presets list no rules), as the code documents",
]
SHRINK = {"list": ["ops"]}

TERM_CHAINS = ["paragraph", "reference", "blockquote", "list"]
# every terminator context occurs in this document, on lines that no built-in rule terminates
# (contexts are identified by the line a rule is consulted on, not by state.parentType, which lheading leaves stale)
EXERCISER = "a\nb\n\n[r]: /u\n'title\nmore'\n\n> # h\nlazy\n\n- x\n\ny\n"
LINE_CONTEXT = {1: "paragraph", 4: "reference", 5: "reference", 8: "blockquote", 12: "list"}
NAMES = ["a", "b", "c", "d", "e", "f"]
UNKNOWN = ["zz", "nope"]
CHAINS = ["", "c1", "c2", "c3"]


def budget(tier: str) -> dict:
    return {"examples": 40000 if tier == "quick" else 1000000}


def _names_arg(d: gen.D):
    k = d.i(0, 9)
    pool = NAMES + UNKNOWN if d.chance(0.5) else NAMES
    if k < 3:
        return d.pick(pool)
    n = d.i(0, 4)
    return [d.pick(pool) for _ in range(n)]


@st.composite
def _case(draw):
    d = gen.D(draw)
    if d.chance(0.12):
        # plugin rules registered on the block ruler with generated terminator-chain membership
        ops = []
        for _ in range(d.i(1, 10)):
            k = d.weighted([(4, "add"), (3, "at"), (3, "disable"), (3, "enable"), (4, "observe")])
            alt = [c for c in TERM_CHAINS if d.chance(0.4)]
            if k == "add":
                ops.append(["add", d.pick(["push", "before", "after"]), alt])
            elif k == "at":
                ops.append(["at", d.i(0, 5), alt])
            elif k in ("disable", "enable"):
                ops.append([k, d.i(0, 5)])
            else:
                ops.append(["observe"])
        ops.append(["observe"])
        return {"kind": "terminators", "preset": d.pick(["commonmark", "js-default"]), "ops": ops}
    if d.chance(0.6):
        ops = []
        for _ in range(d.i(1, 5)):
            ops.append(["push", d.pick(NAMES), [c for c in CHAINS[1:] if d.chance(0.4)]])
        def mkalt():
            alt = [c for c in CHAINS[1:] if d.chance(0.4)]
            if alt and d.chance(0.15):
                alt = alt + [d.pick(alt)]  # a chain named twice is still one membership
            if d.chance(0.05):
                alt = alt + [""]
            return alt

        for _ in range(d.i(3, 35)):
            k = d.weighted([(8, "push"), (6, "before"), (6, "after"), (8, "at"), (14, "enable"), (10, "enableOnly"), (14, "disable"), (18, "getRules"), (10, "observe")])
            alt = mkalt()
            pool = NAMES + UNKNOWN if d.chance(0.3) else NAMES
            if k == "push":
                ops.append(["push", d.pick(NAMES), alt])
            elif k in ("before", "after"):
                ops.append([k, d.pick(pool), d.pick(NAMES), alt])
            elif k == "at":
                ops.append(["at", d.pick(pool), alt])
            elif k in ("enable", "enableOnly", "disable"):
                ops.append([k, _names_arg(d), d.chance(0.4)])
            elif k == "getRules":
                ops.append(["getRules", d.pick(CHAINS + ["nochain"])])
            else:
                ops.append(["observe"])
        return {"kind": "ruler", "ops": ops}
    from .. import cfg as C

    ops = []
    preset = d.pick(["commonmark", "js-default", "zero", "default"])
    # the fallback rules 'paragraph' and 'text' stay on: without them a parse does not terminate (outside the
    # supported configurations, see C01); every other rule name may be switched
    names_pool = C.ALL_OPT + ["linkify", "balance_pairs", "text_join", "normalize", "fragments_join"] + UNKNOWN
    depth = 0
    for _ in range(d.i(2, 16)):
        k = d.weighted([(20, "enable"), (20, "disable"), (8, "configure"), (20, "parse"), (8, "enter"), (8 if depth else 0, "exit"), (4 if depth else 0, "exit_raise"), (6, "active"), (8, "compile")])
        if k in ("enable", "disable"):
            n = d.i(0, 3)
            arg = d.pick(names_pool) if d.chance(0.3) else [d.pick(names_pool) for _ in range(n)]
            ops.append([k, arg, d.chance(0.35)])
        elif k == "configure" and d.chance(0.45):
            # a caller-made preset mapping: every component / list may be absent or empty (= leave that chain alone);
            # the progress-guaranteeing rules stay listed (see C01)
            comps: dict = {}
            keep = {"core": ["normalize", "block", "inline", "text_join"], "block": ["paragraph"], "inline": ["text"], "inline2": []}
            pool = {"core": ["linkify", "replacements", "smartquotes"], "block": [x for x in C.BLOCK_OPT], "inline": [x for x in C.INLINE_OPT], "inline2": ["balance_pairs", "strikethrough", "emphasis", "fragments_join"]}
            for comp in ("core", "block", "inline"):
                how = d.i(0, 5)
                if how == 0:
                    continue
                entry: dict = {}
                if how >= 2:
                    entry["rules"] = [] if how == 2 else keep[comp] + [x for x in pool[comp] if d.chance(0.5)]
                if comp == "inline" and d.chance(0.7):
                    entry["rules2"] = [] if d.chance(0.2) else [x for x in pool["inline2"] if d.chance(0.6)]
                comps[comp] = entry
            ops.append(["configure_custom", comps, d.chance(0.85)])
        elif k == "configure":
            ops.append(["configure", d.pick(["commonmark", "zero", "default", "js-default", "nosuchpreset"])])
        elif k == "parse":
            ops.append(["parse", d.pick(PROBES)])
        elif k == "enter":
            depth += 1
            ops.append(["enter"])
        elif k in ("exit", "exit_raise"):
            depth -= 1
            ops.append([k])
        elif k == "compile":
            ops.append(["compile", d.pick(["", "paragraph", "reference", "blockquote", "list"])])
        else:
            ops.append(["active"])
    return {"kind": "facade", "preset": preset, "ops": ops}


PROBES = [
    "# h\n\n- a *b* `c` ~~d~~\n\n| t |\n|---|\n| u |\n\n> q [l](u) ![i](s) <http://a.b> &amp; \\* <b>x</b>\n\n    code\n\n```\nf\n```\n\n***\n\n[r]: /u\n\n[r] \"q\" (c)\n\nx\n===\n\n<div>\n",
    "1. a\n2. b\n\n> > n\n\na  \nb\\\nc\n",
    "*e* **s** ~~x~~ `c` [l](u) <a@b.c> &copy; \"q\" -- ...\n",
]


def strategy(tier: str):
    return _case()


# --------------------------------------------------------------------------------------------
# reference model of a Ruler


class Model:
    def __init__(self) -> None:
        self.rules: list[dict] = []  # {"name","enabled","fn","alt"}

    def find(self, name: str) -> int:
        for i, r in enumerate(self.rules):
            if r["name"] == name:
                return i
        return -1

    def active(self) -> list[str]:
        return [r["name"] for r in self.rules if r["enabled"]]

    def all(self) -> list[str]:
        return [r["name"] for r in self.rules]

    def chain(self, c: str) -> list:
        return [r["fn"] for r in self.rules if r["enabled"] and (c == "" or c in r["alt"])]

    def flags(self) -> list[bool]:
        return [r["enabled"] for r in self.rules]


def _mkfn(tag: str):
    def fn(*a, **k):  # pragma: no cover - never called
        return False

    fn.tag = tag
    return fn


def _same(a: list, b: list) -> bool:
    return len(a) == len(b) and all(x is y for x, y in zip(a, b))


class RulerExec:
    """Executes Ruler operations one at a time against the library and the reference model."""

    def __init__(self, res: Res) -> None:
        from markdown_it.ruler import Ruler

        self.res = res
        self.r = Ruler()
        self.m = Model()
        self.compiled = False
        self.mutated_after_compile = False
        self.raised = False
        self.i = 0

    def observe(self, where: str) -> None:
        r, m, res = self.r, self.m, self.res
        for c in CHAINS + ["nochain"]:
            got = r.getRules(c)
            exp = m.chain(c)
            if not _same(list(got), exp):
                res.fail(
                    "applied-differs-from-reported",
                    f"{where}: chain {c!r} applies {[getattr(f, 'tag', '?') for f in got]} but active rules are {m.active()} -> expected {[f.tag for f in exp]}",
                )
                return
        self.compiled = True

    def reported(self, where: str) -> bool:
        r, m, res = self.r, self.m, self.res
        if r.get_all_rules() != m.all():
            res.fail("reported-all-differs-from-model", f"{where}: get_all_rules()={r.get_all_rules()} model={m.all()}")
            return False
        if r.get_active_rules() != m.active():
            res.fail("reported-active-differs-from-model", f"{where}: get_active_rules()={r.get_active_rules()} model={m.active()}")
            return False
        return True

    def step(self, op) -> bool:
        """Returns False when the history must stop (a violation was recorded)."""
        r, m, res = self.r, self.m, self.res
        i = self.i
        self.i += 1
        k = op[0]
        where = f"step {i} {op!r}"
        try:
            if k == "push":
                fn = _mkfn(f"{op[1]}#{i}")
                r.push(op[1], fn, {"alt": list(op[2])})
                m.rules.append({"name": op[1], "enabled": True, "fn": fn, "alt": list(op[2])})
                self.mutated_after_compile |= self.compiled
            elif k in ("before", "after"):
                fn = _mkfn(f"{op[2]}#{i}")
                idx = m.find(op[1])
                try:
                    getattr(r, k)(op[1], op[2], fn, {"alt": list(op[3])})
                except KeyError:
                    self.raised = True
                    if idx != -1:
                        res.fail(f"{k}:unexpected-KeyError", where)
                        return False
                else:
                    if idx == -1:
                        res.fail(f"{k}:unknown-name-accepted", where)
                        return False
                    m.rules.insert(idx if k == "before" else idx + 1, {"name": op[2], "enabled": True, "fn": fn, "alt": list(op[3])})
                    self.mutated_after_compile |= self.compiled
            elif k == "at":
                fn = _mkfn(f"{op[1]}@{i}")
                idx = m.find(op[1])
                try:
                    r.at(op[1], fn, {"alt": list(op[2])})
                except KeyError:
                    self.raised = True
                    if idx != -1:
                        res.fail("at:unexpected-KeyError", where)
                        return False
                else:
                    if idx == -1:
                        res.fail("at:unknown-name-accepted", where)
                        return False
                    m.rules[idx]["fn"] = fn
                    m.rules[idx]["alt"] = list(op[2])
                    self.mutated_after_compile |= self.compiled
            elif k in ("enable", "enableOnly", "disable"):
                arg, ignore = op[1], op[2]
                names = [arg] if isinstance(arg, str) else list(arg)
                before = m.flags()
                if k == "enableOnly":
                    for rr in m.rules:
                        rr["enabled"] = False
                found = []
                bad = None
                for nm in names:
                    idx = m.find(nm)
                    if idx < 0:
                        if ignore:
                            continue
                        bad = nm
                        break
                    m.rules[idx]["enabled"] = k != "disable"
                    found.append(nm)
                partial = m.flags()
                try:
                    ret = getattr(r, k)(copy.deepcopy(arg), ignore)
                except KeyError:
                    self.raised = True
                    if bad is None:
                        res.fail(f"{k}:unexpected-KeyError", where)
                        return False
                    # either atomic (state before) or the documented partial application
                    act = r.get_active_rules()
                    cand_partial = [rr["name"] for rr, f in zip(m.rules, partial) if f]
                    cand_before = [rr["name"] for rr, f in zip(m.rules, before) if f]
                    if act == cand_partial:
                        pass
                    elif act == cand_before:
                        for rr, f in zip(m.rules, before):
                            rr["enabled"] = f
                    else:
                        res.fail(f"{k}:state-after-raise", f"{where}: active={act}, neither {cand_before} nor {cand_partial}")
                        return False
                    if self.compiled:
                        self.mutated_after_compile = True
                else:
                    if bad is not None:
                        res.fail(f"{k}:unknown-name-accepted", f"{where}: no KeyError for {bad!r}")
                        return False
                    if list(ret) != found:
                        res.fail(f"{k}:return-value", f"{where}: returned {ret}, expected {found}")
                    self.mutated_after_compile |= self.compiled
            elif k == "getRules":
                got = r.getRules(op[1])
                exp = m.chain(op[1])
                self.compiled = True
                if not _same(list(got), exp):
                    res.fail("applied-differs-from-reported", f"{where}: chain {op[1]!r} applies {[getattr(f, 'tag', '?') for f in got]}, expected {[f.tag for f in exp]} (active {m.active()})")
                    return False
            elif k == "observe":
                self.observe(where)
        except Exception as e:  # noqa: BLE001
            from ..runner import lib_frame_of

            if lib_frame_of(e) is None:
                raise
            res.fail(f"{k}:unexpected-{type(e).__name__}", f"{where}: {e!r}")
            return False
        if not self.reported(where):
            return False
        return not res.v


def check_ruler(case, res: Res) -> None:
    ex = RulerExec(res)
    for op in case["ops"]:
        if not ex.step(op):
            return
    ex.observe("end of history")
    res.nt = ex.mutated_after_compile and ex.raised
    if ex.mutated_after_compile:
        res.cls.append("mutation_after_compile")
    if ex.raised:
        res.cls.append("raising_call")


# --------------------------------------------------------------------------------------------
# facade


class _Boom(Exception):
    pass


def _fresh_like(md):
    """A fresh instance on which exactly the reported active rules are enabled."""
    from markdown_it import MarkdownIt

    f = MarkdownIt("zero", dict(md.options))
    act = md.get_active_rules()
    f.core.ruler.enableOnly(act["core"])
    f.block.ruler.enableOnly(act["block"])
    f.inline.ruler.enableOnly(act["inline"])
    f.inline.ruler2.enableOnly(act["inline2"])
    return f


def check_facade(case, res: Res) -> None:
    from markdown_it import MarkdownIt

    md = MarkdownIt(case["preset"])
    allr = md.get_all_rules()
    model = {c: list(v) for c, v in md.get_active_rules().items()}  # chain -> active names (registration order)
    order = {c: list(v) for c, v in allr.items()}
    presets = {p: MarkdownIt(p).get_active_rules() for p in ("commonmark", "zero")}
    stack: list[dict] = []
    parsed = False
    mutated_after_parse = False
    raised = False

    def set_active(chain, names):
        model[chain] = [n for n in order[chain] if n in names]

    def apply(kind, names):
        found = set()
        for c in order:
            for n in names:
                if n in order[c]:
                    found.add(n)
                    s = set(model[c])
                    (s.add if kind == "enable" else s.discard)(n)
                    set_active(c, s)
        return found

    def compare(where: str) -> bool:
        act = md.get_active_rules()
        if act != model:
            res.fail("facade:reported-differs-from-model", f"{where}: get_active_rules()={act} model={model}")
            return False
        if md.get_all_rules() != allr:
            res.fail("facade:all-rules-changed", where)
            return False
        return True

    ops = case["ops"]
    i = 0

    def run_ops(lo: int) -> int:
        """Runs ops from lo; returns index after the matching exit of the current block (or len)."""
        nonlocal parsed, mutated_after_parse, raised
        j = lo
        while j < len(ops):
            op = ops[j]
            k = op[0]
            where = f"step {j} {op!r}"
            if k in ("enable", "disable"):
                arg, ignore = op[1], op[2]
                names = [arg] if isinstance(arg, str) else list(arg)
                found = apply(k, names)
                missed = [n for n in names if n not in found]
                try:
                    ret = getattr(md, k)(copy.deepcopy(arg), ignore)
                except ValueError:
                    raised = True
                    if not missed or ignore:
                        res.fail(f"facade:{k}:unexpected-ValueError", where)
                        return len(ops)
                else:
                    if missed and not ignore:
                        res.fail(f"facade:{k}:unknown-name-accepted", where)
                        return len(ops)
                    if ret is not md:
                        res.fail(f"facade:{k}:not-chainable", where)
                mutated_after_parse |= parsed
            elif k == "configure":
                p = op[1]
                try:
                    md.configure(p)
                except KeyError:
                    raised = True
                    if p in ("commonmark", "zero", "default", "js-default"):
                        res.fail("facade:configure:unexpected-KeyError", where)
                        return len(ops)
                else:
                    if p == "nosuchpreset":
                        res.fail("facade:configure:unknown-preset-accepted", where)
                        return len(ops)
                    if p in presets:
                        for c in order:
                            set_active(c, set(presets[p][c]))
                    mutated_after_parse |= parsed
            elif k == "configure_custom":
                comps, with_components = op[1], op[2]
                config = {"options": dict(md.options)}
                if with_components:
                    config["components"] = copy.deepcopy(comps)
                md.configure(config)
                if with_components:
                    for comp, entry in comps.items():
                        if entry.get("rules"):
                            set_active(comp, set(entry["rules"]))
                        if comp == "inline" and entry.get("rules2"):
                            set_active("inline2", set(entry["rules2"]))
                mutated_after_parse |= parsed
            elif k == "parse":
                got = dump(md.parse(op[1]))
                exp = dump(_fresh_like(md).parse(op[1]))
                parsed = True
                if got != exp:
                    res.fail("facade:applied-differs-from-reported", f"{where}: parse differs from a fresh instance with exactly the reported rules: {first_diff(got, exp)}")
                    return len(ops)
            elif k == "active":
                pass
            elif k == "compile":
                # reading the compiled chains is an observation: it must not change what the next parse applies
                for ruler in (md.core.ruler, md.block.ruler, md.inline.ruler, md.inline.ruler2):
                    ruler.getRules(op[1] if ruler is md.block.ruler else "")
            elif k == "enter":
                saved = {c: list(v) for c, v in model.items()}
                try:
                    with md.reset_rules():
                        j = run_ops(j + 1)
                        closing = ops[j - 1][0] if 0 < j <= len(ops) else "exit"
                        if closing == "exit_raise":
                            raise _Boom()
                except _Boom:
                    raised = True
                for c in order:
                    model[c] = list(saved[c])
                if not compare(f"after reset_rules block ending at step {j - 1}"):
                    return len(ops)
                continue
            elif k in ("exit", "exit_raise"):
                return j + 1
            if res.v or not compare(where):
                return len(ops)
            j += 1
        return j

    while i < len(ops):
        i = run_ops(i)
        if res.v:
            return
    if not res.v:
        got = dump(md.parse(PROBES[0]))
        exp = dump(_fresh_like(md).parse(PROBES[0]))
        if got != exp:
            res.fail("facade:applied-differs-from-reported", f"end: {first_diff(got, exp)}")
    res.nt = mutated_after_parse and raised
    if mutated_after_parse:
        res.cls.append("mutation_after_parse")
    if raised:
        res.cls.append("raising_call")


def check_terminators(case, res: Res) -> None:
    """Plugin rules with generated chain membership: the contexts in which each is consulted while parsing must be
    exactly its enabled alt chains (observed through the rules themselves)."""
    from markdown_it import MarkdownIt

    md = MarkdownIt(case["preset"])
    seen: set = set()
    probes: list[dict] = []  # {"name","alt","enabled"}
    # one counting probe in each of the other chains (registered at a generated position): every enabled rule of a
    # chain runs once per pass of that chain - core: once per parse; inline2: once per inline parse
    counts = {"core": 0, "inline2": 0, "inline": 0}
    other_enabled = {"core": True, "inline2": True, "inline": True}

    def core_probe(state):
        counts["core"] += 1

    def inline2_probe(state):
        counts["inline2"] += 1

    def inline_probe(state, silent):
        counts["inline"] += 1
        return False

    k0 = sum(len(str(o)) for o in case["ops"])
    (md.core.ruler.push if k0 % 2 else (lambda n, f: md.core.ruler.after("inline", n, f)))("verif_core_probe", core_probe)
    (md.inline.ruler2.push if k0 % 3 else (lambda n, f: md.inline.ruler2.before("balance_pairs", n, f)))("verif_inline2_probe", inline2_probe)
    md.inline.ruler.before("text", "verif_inline_probe", inline_probe)

    def make(name):
        def probe(state, startLine, endLine, silent):
            if silent:
                seen.add((name, startLine))
            return False

        return probe

    for i, op in enumerate(case["ops"]):
        k = op[0]
        where = f"step {i} {op!r}"
        if k == "add":
            name = f"verif_probe{len(probes)}"
            how, alt = op[1], list(op[2])
            if how == "push":
                md.block.ruler.push(name, make(name), {"alt": alt})
            elif how == "before":
                md.block.ruler.before("paragraph", name, make(name), {"alt": alt})
            else:
                md.block.ruler.after("reference", name, make(name), {"alt": alt})
            probes.append({"name": name, "alt": alt, "enabled": True})
        elif not probes:
            continue
        elif k == "at":
            p = probes[op[1] % len(probes)]
            md.block.ruler.at(p["name"], make(p["name"]), {"alt": list(op[2])})
            p["alt"] = list(op[2])
        elif k == "disable":
            p = probes[op[1] % len(probes)]
            md.disable(p["name"])
            p["enabled"] = False
            which = ["core", "inline2", "inline"][op[1] % 3]
            md.disable(f"verif_{which}_probe")
            other_enabled[which] = False
        elif k == "enable":
            p = probes[op[1] % len(probes)]
            md.enable(p["name"])
            p["enabled"] = True
            which = ["core", "inline2", "inline"][op[1] % 3]
            md.enable(f"verif_{which}_probe")
            other_enabled[which] = True
        elif k == "observe":
            seen.clear()
            for kk in counts:
                counts[kk] = 0
            toks = md.parse(EXERCISER)
            n_inline = sum(1 for t in toks if t.type == "inline")
            exp_counts = {"core": 1 if other_enabled["core"] else 0, "inline2": n_inline if other_enabled["inline2"] else 0}
            got_counts = {"core": counts["core"], "inline2": counts["inline2"]}
            if got_counts != exp_counts or (counts["inline"] > 0) != other_enabled["inline"]:
                res.fail(
                    "chain-pass:applied-differs-from-reported",
                    f"{where}: probe rules ran core={counts['core']} inline2={counts['inline2']} inline={counts['inline']} times over {n_inline} inline containers; enabled={other_enabled} -> expected {exp_counts}",
                )
                return
            expected = {(p["name"], ln) for p in probes if p["enabled"] for ln, c in LINE_CONTEXT.items() if c in p["alt"]}
            if seen != expected:
                extra = sorted(seen - expected)
                missing = sorted(expected - seen)
                res.fail(
                    "terminator-chain:applied-differs-from-membership",
                    f"{where}: (probe, line) consulted although the probe is not a member of that line's chain: {extra}; members never consulted: {missing}; line->chain {LINE_CONTEXT}; probes={probes}",
                )
                return
            res.nt = res.nt or len(expected) >= 2
        act = md.get_active_rules()["block"]
        exp_act = [p["name"] for p in probes if p["enabled"]]
        if [n for n in act if n.startswith("verif_probe")] and sorted(n for n in act if n.startswith("verif_probe")) != sorted(exp_act):
            res.fail("terminator-chain:reported-differs-from-model", f"{where}: active probes {[n for n in act if n.startswith('verif_probe')]} vs model {exp_act}")
            return


def check(case) -> Res:
    res = Res()
    res.cls.append(case["kind"])
    if case["kind"] == "terminators":
        check_terminators(case, res)
        return res
    if case["kind"] == "ruler":
        check_ruler(case, res)
    else:
        check_facade(case, res)
    return res


# --------------------------------------------------------------------------------------------
# second engine: a Hypothesis rule-based state machine over the same executor (state-dependent
# generation: names are drawn from the rules that exist at that point of the history)

_LAST_HISTORY: list = []


def _machine():
    from hypothesis import strategies as hst
    from hypothesis.stateful import RuleBasedStateMachine, invariant, precondition, rule

    alts = hst.lists(hst.sampled_from(CHAINS[1:]), max_size=3, unique=True)

    class RulerMachine(RuleBasedStateMachine):
        def __init__(self):
            super().__init__()
            self.res = Res()
            self.ex = RulerExec(self.res)
            self.ops: list = []

        def _do(self, op):
            self.ops.append(op)
            _LAST_HISTORY[:] = self.ops
            self.ex.step(op)
            assert not self.res.v, self.res.v

        def _known(self, data):
            names = self.ex.m.all()
            return data.draw(hst.sampled_from(names)) if names else "a"

        @rule(name=hst.sampled_from(NAMES), alt=alts)
        def push(self, name, alt):
            self._do(["push", name, alt])

        @precondition(lambda self: len(self.ex.m.rules) > 0)
        @rule(data=hst.data(), name=hst.sampled_from(NAMES), alt=alts, where=hst.sampled_from(["before", "after"]), unknown=hst.booleans())
        def insert(self, data, name, alt, where, unknown):
            target = data.draw(hst.sampled_from(UNKNOWN)) if unknown and data.draw(hst.booleans()) else self._known(data)
            self._do([where, target, name, alt])

        @precondition(lambda self: len(self.ex.m.rules) > 0)
        @rule(data=hst.data(), alt=alts, unknown=hst.booleans())
        def at(self, data, alt, unknown):
            target = data.draw(hst.sampled_from(UNKNOWN)) if unknown and data.draw(hst.booleans()) else self._known(data)
            self._do(["at", target, alt])

        @rule(data=hst.data(), kind=hst.sampled_from(["enable", "enableOnly", "disable"]), ignore=hst.booleans(), as_str=hst.booleans())
        def switch(self, data, kind, ignore, as_str):
            pool = (self.ex.m.all() or ["a"]) + UNKNOWN
            if as_str:
                arg = data.draw(hst.sampled_from(pool))
            else:
                arg = data.draw(hst.lists(hst.sampled_from(pool), max_size=4))
            self._do([kind, arg, ignore])

        @rule(chain=hst.sampled_from(CHAINS + ["nochain"]))
        def get_rules(self, chain):
            self._do(["getRules", chain])

        @invariant()
        def applied_equals_reported_at_observations(self):
            # a full observation compiles the chains; do it only sometimes so that histories with
            # no compiled cache between mutations are generated too
            if len(self.ops) % 5 == 4:
                self._do(["observe"])

    return RulerMachine


def extra_phase(tier, seed, shard, nshards, coll):
    from hypothesis import HealthCheck, Phase, settings
    from hypothesis import seed as hseed
    from hypothesis.stateful import run_state_machine_as_test

    from ..runner import derive_seed

    n = (400 if tier == "quick" else 20000) // nshards
    if n <= 0:
        return
    machine = hseed(derive_seed(seed, ID, shard, "machine"))(_machine())
    try:
        run_state_machine_as_test(
            machine,
            settings=settings(
                max_examples=n, stateful_step_count=40, database=None, deadline=None, derandomize=False,
                suppress_health_check=list(HealthCheck), report_multiple_bugs=False,
                phases=[Phase.generate, Phase.shrink],
            ),
        )
        coll.extra["state_machine_examples"] = coll.extra.get("state_machine_examples", 0) + n
    except AssertionError:
        # the (shrunk) failing history was replayed last: hand it to the collector as a plain data case
        coll.run_case({"kind": "ruler", "ops": list(_LAST_HISTORY), "origin": "RuleBasedStateMachine"}, "machine")
        coll.extra["state_machine_examples"] = coll.extra.get("state_machine_examples", 0) + n

"""C12 - a parse depends only on configuration, source and env: no hidden shared state."""
from __future__ import annotations

import copy

from hypothesis import strategies as st

from .. import cfg as C
from .. import gen
from ..runner import Res
from ..util import dump, first_diff

ID = "C12"
LEVEL = "exploration"
RULE = (
    "cases = histories over a pool of up to 3 live instances: construct (preset name, a caller-owned preset dict "
    "shared between instances, options_update mappings shared between instances), parse/render/parseInline/"
    "renderInline of generated documents with env omitted / fresh / one of two shared envs, enable/disable, option "
    "changes by item, attribute and set() (also with one mapping object given to two instances), add_render_rule, "
    "reset_rules blocks, probes. Oracle: each instance's probe result (tokens, HTML, env; env omitted and {}) must "
    "equal that of a fresh instance built by replaying only the instance's own configuration recipe; module presets "
    "and caller-owned mappings must stay deep-equal to their snapshots. A tenth of the histories use a few documents "
    "at scale and one shared env holding a 60 000-character definition; the probe's four entry points are tried in "
    "rotating order. Histories that begin with the process: 56 scenarios (instance kind incl. renderer_cls subclasses "
    "x what was built/used before) are run in two fresh interpreters each, probe instance first vs last. Non-trivial = >= 2 instances, a "
    "configuration operation after a parse, and a probe document using a label defined in an earlier document; "
    "distinct = distinct case hash."
)
ASSUMPTIONS = ["render rules are taken from a small registry of pure functions"]
SHRINK = {"list": ["ops"]}

DOCS = [
    "[r]: /first 'one'\n\n[r] and [x][r]\n",
    "[r]: /second\n",
    "[r] [R] [s]\n",
    "[s]: <other> \"t\"\n\n![i][s]\n",
    "# h\n\n- a *b* `c` ~~d~~\n\n| t |\n|---|\n\n> q [l](u) ![i](s) <http://a.b> &amp;\n\n```py\nf\n```\n\n\"q\" -- (c)\n",
    "a\nb  \nc\n\n<div>x</div>\n\n1. x\n",
    "*e* [r][] ![r] text\n",
]
# documents at scale, referred to by name in cases (size thresholds and per-document budgets inside the parser)
BIG = {
    "@BIGDEF": "[big]: /" + "a" * 40000 + " '" + "t" * 20000 + "'\n",
    "@BIGUSE": "[x][big]",
    "@BIGUSE2": "![y][big] and [big]\n",
    "@BIGLIST": "- a\n" * 3000,
    "@BIGINLINE": "*a* `b` [c](d) " * 4000,
}


def _doc(x: str) -> str:
    return BIG.get(x, x)


OPT_VALUES = {
    "html": [True, False], "breaks": [True, False], "xhtmlOut": [True, False], "typographer": [True, False], "langPrefix": ["lang-", "", "x-"],
    "quotes": ["«»‹›", "“”‘’"], "maxNesting": [3, 20, 100], "inline_definitions": [True, False], "store_labels": [True, False],
}
ATTR_OPTS = {"html", "breaks", "xhtmlOut", "typographer", "langPrefix", "quotes", "maxNesting"}
RULE_NAMES = ["table", "strikethrough", "emphasis", "link", "image", "list", "blockquote", "fence", "code", "reference", "backticks", "heading", "smartquotes", "replacements", "entity", "escape", "html_inline", "html_block", "autolink", "hr", "lheading", "newline"]


def _rr_upper(self, tokens, idx, options, env):
    return tokens[idx].content.upper().replace("&", "&amp;").replace("<", "&lt;")


def _rr_strong(self, tokens, idx, options, env):
    return "<b>"


def _rr_hr(self, tokens, idx, options, env):
    return "<hr class=x>\n"


def _rr_refs(self, tokens, idx, options, env):
    # a render rule that reads env (the built-in rules never do): what the renderer is handed must be the env of the parse
    if tokens[idx].hidden:
        return ""
    return '<p data-refs="%s">' % ",".join(sorted(env.get("references", {})))


def _rr_join(self, tokens, idx, options, env):
    # a render rule that decorates the token it renders (a common plugin pattern)
    tokens[idx].attrJoin("class", "lead")
    return self.renderToken(tokens, idx, options, env)


def _rr_set(self, tokens, idx, options, env):
    tokens[idx].attrSet("data-x", "1")
    return self.renderToken(tokens, idx, options, env)


RENDER_RULES = {"heading_open": _rr_join, "em_open": _rr_set, "text": _rr_upper, "strong_open": _rr_strong, "hr": _rr_hr, "paragraph_open": _rr_refs}


def budget(tier: str) -> dict:
    return {"examples": 16000 if tier == "quick" else 500000}


# --------------------------------------------------------------------------------------------
# histories that start with the process: whatever was constructed or rendered earlier in the process (including "nothing")
# must not matter.  Each scenario is run in two fresh interpreters - probe instance first / probe instance last.

_PO_SCRIPT = r"""
import json, sys
sys.path.insert(0, sys.argv[1])
from markdown_it import MarkdownIt, presets
from markdown_it.renderer import RendererHTML


class Sub(RendererHTML):
    def strong_open(self, tokens, idx, options, env):
        return "<b>"

    def hr(self, tokens, idx, options, env):
        return "<hr class=x>\n"

    def text(self, tokens, idx, options, env):
        return tokens[idx].content.upper().replace("&", "&amp;").replace("<", "&lt;")


class Sub2(RendererHTML):
    def em_open(self, tokens, idx, options, env):
        return "<i>"

    def heading_open(self, tokens, idx, options, env):
        return "<h1 class=t>"


class SubSub(Sub):
    def s_open(self, tokens, idx, options, env):
        return "<del>"


DOCS = ["# h\n\n**s** *e* ~~d~~ `c`\n\n---\n\n- a\n\n\"q\" (c) -- [l](u) ![i](s) <http://a.b> &amp;\n\n```py\nf\n```\n\n| t |\n|---|\n", "[r]: /u\n\n[r] x\n"]


def rr(self, tokens, idx, options, env):
    return "<b>"


PROBES = {
    "renderer_cls": lambda: MarkdownIt("commonmark", renderer_cls=Sub),
    "renderer_subsub": lambda: MarkdownIt("js-default", renderer_cls=SubSub),
    "typographer": lambda: MarkdownIt("js-default", {"typographer": True}),
    "zero+rules": lambda: MarkdownIt("zero").enable(["emphasis", "list", "table", "strikethrough"]),
    "preset-dict": lambda: MarkdownIt(presets.commonmark.make()),
    "render-rule": lambda: (lambda m: (m.add_render_rule("strong_open", rr), m)[1])(MarkdownIt("commonmark")),
    "default": lambda: MarkdownIt(),
}
OTHERS = {
    "default-instance": lambda: [MarkdownIt()],
    "default-used": lambda: [MarkdownIt().render(d) for d in DOCS],
    "other-renderer_cls": lambda: [MarkdownIt("commonmark", renderer_cls=Sub2).render(d) for d in DOCS],
    "same-renderer_cls": lambda: [MarkdownIt("zero", renderer_cls=Sub).render(DOCS[0])],
    "zero-used": lambda: [MarkdownIt("zero").render(d) for d in DOCS],
    "typographer-used": lambda: [MarkdownIt("js-default", {"typographer": True, "quotes": "<<>>"}).render(d) for d in DOCS],
    "configured": lambda: [MarkdownIt("commonmark").enable("table").disable("emphasis").render(DOCS[0])],
    "render-rule-added": lambda: (lambda m: (m.add_render_rule("hr", rr), m.render(DOCS[0])))(MarkdownIt()),
}
probe, other, order = sys.argv[2], sys.argv[3], sys.argv[4]


def run_probe():
    md = PROBES[probe]()
    return [md.render(d) for d in DOCS] + [repr(sorted(md.renderer.rules)), repr(md.get_active_rules())]


if order == "first":
    out = run_probe()
    OTHERS[other]()
else:
    OTHERS[other]()
    out = run_probe()
print(json.dumps(out))
"""
PO_PROBES = ["renderer_cls", "renderer_subsub", "typographer", "zero+rules", "preset-dict", "render-rule", "default"]
PO_OTHERS = ["default-instance", "default-used", "other-renderer_cls", "same-renderer_cls", "zero-used", "typographer-used", "configured", "render-rule-added"]


def enumerate_cases(tier: str, shard: int, nshards: int):
    idx = 0
    for pr in PO_PROBES:
        for ot in PO_OTHERS:
            idx += 1
            if idx % nshards == shard:
                yield {"kind": "process-order", "probe": pr, "other": ot}


def check_process_order(case) -> Res:
    import json
    import os
    import subprocess
    import sys

    from .. import boot

    res = Res()
    res.cls.append("process-order")
    outs = {}
    for order in ("first", "last"):
        p = subprocess.run([sys.executable, "-c", _PO_SCRIPT, os.path.dirname(boot.lib_root()), case["probe"], case["other"], order], capture_output=True, text=True, timeout=300, env={"PYTHONHASHSEED": "0", "PATH": "/usr/bin:/bin"})
        if p.returncode != 0:
            if "markdown_it" in p.stderr and "verif" not in p.stderr.split("Traceback")[-1]:
                res.fail("process-order:exception", f"probe {case['probe']} {order} (other: {case['other']}): {p.stderr[-300:]}")
                return res
            raise RuntimeError("process-order helper failed: " + p.stderr[-800:])
        outs[order] = json.loads(p.stdout)
    res.nt = True
    if outs["first"] != outs["last"]:
        j = [a != b for a, b in zip(outs["first"], outs["last"])].index(True)
        res.fail("process-order:result-depends-on-earlier-instances", f"instance '{case['probe']}' built as the first thing in a process gives {outs['first'][j]!r}, built after '{case['other']}' it gives {outs['last'][j]!r}"[:600])
    return res


@st.composite
def _case(draw):
    d = gen.D(draw)
    ops = []
    n_inst = d.i(1, 3)
    for i in range(n_inst):
        how = d.weighted([(5, "name"), (2, "dict"), (2, "shared_update")])
        opts = {k: d.pick(v) for k, v in OPT_VALUES.items() if d.chance(0.2)}
        ops.append(["new", i, how, d.pick(["commonmark", "js-default", "zero", "default"]), opts])
    scale = d.chance(0.1)  # histories over a few documents at scale, one shared env that holds a huge definition
    for _ in range(d.i(2, 22) if not scale else d.i(2, 9)):
        i = d.i(0, n_inst - 1)
        k = d.weighted([(30, "call"), (12, "rules"), (12, "opt"), (4, "set_shared"), (5, "render_rule"), (5, "reset_block"), (4, "configure"), (3, "mutate_preset"), (14, "probe")])
        if scale and k not in ("rules", "opt"):
            if d.chance(0.65):
                ops.append(["call", i, d.pick(["parse", "render", "parseInline", "renderInline", "parseInline", "renderInline"]), d.pick(sorted(BIG)), d.pick(["bigenv", "bigenv", "none", "fresh"])])
            else:
                ops.append(["probe", i, d.pick(["@BIGUSE", "@BIGUSE2", "@BIGUSE", DOCS[4]]), "bigenv"])
            continue
        if k == "call":
            doc = d.pick(DOCS) if d.chance(0.75) else gen.any_doc_d(d)
            ops.append(["call", i, d.pick(["parse", "render", "parseInline", "renderInline"]), doc, d.pick(["none", "fresh", "env0", "env1"])])
        elif k == "rules":
            ops.append([d.pick(["enable", "disable"]), i, [d.pick(RULE_NAMES) for _ in range(d.i(1, 3))]])
        elif k == "opt":
            key = d.pick(sorted(OPT_VALUES))
            ops.append(["opt", i, d.pick(["item", "attr", "set"]), key, d.pick(OPT_VALUES[key])])
        elif k == "set_shared":
            ops.append(["set_shared", i, d.i(0, n_inst - 1), {kk: d.pick(v) for kk, v in OPT_VALUES.items() if d.chance(0.3)}])
        elif k == "render_rule":
            ops.append(["render_rule", i, d.pick(sorted(RENDER_RULES))])
        elif k == "reset_block":
            ops.append(["reset_block", i, [d.pick(RULE_NAMES) for _ in range(d.i(1, 2))], d.pick(DOCS), d.chance(0.3)])
        elif k == "configure":
            ops.append(["configure", i, d.pick(["commonmark", "zero"])])
        elif k == "mutate_preset":
            ops.append(["mutate_preset", i, d.pick(["zero", "commonmark"]), d.pick(["inline", "block", "core"]), d.pick(RULE_NAMES)])
        else:
            ops.append(["probe", i, d.pick(DOCS) if d.chance(0.8) else gen.any_doc_d(d), d.pick(["none", "env0", "env1"])])
    ops.append(["probe", d.i(0, n_inst - 1), d.pick(DOCS[:4]), "none"])
    return {"ops": ops}


def strategy(tier: str):
    return _case()


class _Boom(Exception):
    pass


def _full_options(md) -> dict:
    return dict(md.options)


def check(case) -> Res:
    if case.get("kind") == "process-order":
        return check_process_order(case)
    import markdown_it.main as mainmod
    from markdown_it import MarkdownIt, presets

    res = Res()
    snap_presets = copy.deepcopy(mainmod._PRESETS)
    snap_make = {n: copy.deepcopy(getattr(presets, n).make()) for n in ("commonmark", "default", "zero", "js_default", "gfm_like")}
    user_preset = {n: getattr(presets, n.replace("-", "_")).make() for n in ("commonmark", "js-default", "zero", "default")}
    user_preset_snap = copy.deepcopy(user_preset)
    BDOCS = [DOCS[4], DOCS[0]]
    baseline = {p: [MarkdownIt(p).render(dd) for dd in BDOCS] for p in ("commonmark", "js-default", "zero")}
    shared_updates: list = []  # (mapping object, snapshot)
    insts: dict = {}
    recipes: dict = {}
    envs = {"env0": {}, "env1": {}}
    if any(len(op) > 4 and op[-1] == "bigenv" or (op[0] == "probe" and op[3] == "bigenv") for op in case["ops"]):
        envs["bigenv"] = {}
        MarkdownIt("commonmark").parse(BIG["@BIGDEF"], envs["bigenv"])  # seeded by another instance, as a caller may
    parsed = set()
    config_after_parse = False
    defined_earlier = False
    probe_uses_earlier = False

    def build(recipe):
        md = None
        for op in recipe:
            k = op[0]
            if k == "new":
                _, _i, how, preset, opts = op
                md = MarkdownIt(preset, dict(opts)) if opts else MarkdownIt(preset)
            elif k in ("enable", "disable"):
                getattr(md, k)(list(op[2]), True)
            elif k == "opt":
                md.options[op[3]] = op[4]
            elif k == "set":
                md.set(dict(op[1]))
            elif k == "render_rule":
                md.add_render_rule(op[2], RENDER_RULES[op[2]])
            elif k == "configure":
                md.configure(op[2])
        return md

    def probe(i, doc, envmode, where, rot=0):
        doc = _doc(doc)
        live = insts[i]
        fresh = build(recipes[i])
        if _full_options(live) != _full_options(fresh):
            res.fail("options-differ-from-recipe", f"{where}: live options {_full_options(live)} != fresh {_full_options(fresh)}")
            return
        if live.get_active_rules() != fresh.get_active_rules():
            res.fail("active-rules-differ-from-recipe", f"{where}: {live.get_active_rules()} != {fresh.get_active_rules()}")
            return
        fns = ["parse", "render", "parseInline", "renderInline"]
        for fn in fns[rot % 4 :] + fns[: rot % 4]:  # whichever entry point comes first must not matter
            results = []
            for mode in ("none", "empty") if envmode == "none" else (envmode,):
                for md in (live, fresh):
                    if mode == "none":
                        out = getattr(md, fn)(doc)
                        e = None
                    else:
                        e = {} if mode == "empty" else copy.deepcopy(envs[mode])
                        out = getattr(md, fn)(doc, e)
                    results.append((dump(out) if isinstance(out, list) else out, e if mode != "none" else "omitted"))
            base = results[0][0]
            for j, (o, e) in enumerate(results[1:], 1):
                if o != base:
                    detail = first_diff(o, base) if isinstance(o, list) else f"{o!r} != {base!r}"
                    res.fail(f"probe-differs:{fn}", f"{where}: instance {i} vs fresh replay / env omitted vs {{}} (variant {j}): {detail}"[:600])
                    return
            es = [e for _, e in results if e != "omitted"]
            if len(es) >= 2 and any(x != es[0] for x in es[1:]):
                res.fail(f"probe-env-differs:{fn}", f"{where}: {es[0]!r} != {es[1]!r}"[:600])
                return

    for n, op in enumerate(case["ops"]):
        k = op[0]
        where = f"step {n} {op[:3]!r}"
        try:
            if k == "new":
                _, i, how, preset, opts = op
                if how == "dict":
                    md = MarkdownIt(user_preset[preset], dict(opts)) if opts else MarkdownIt(user_preset[preset])
                elif how == "shared_update" and opts:
                    if not shared_updates:
                        shared_updates.append((dict(opts), copy.deepcopy(opts)))
                    mapping = shared_updates[0][0]
                    md = MarkdownIt(preset, mapping)
                    opts = copy.deepcopy(shared_updates[0][1])
                else:
                    md = MarkdownIt(preset, dict(opts)) if opts else MarkdownIt(preset)
                insts[i] = md
                recipes[i] = [["new", i, "name", preset, opts]]
                continue
            i = op[1]
            if i not in insts:
                continue
            md = insts[i]
            other = None
            if k in ("enable", "disable", "opt", "set_shared", "render_rule", "configure", "reset_block"):
                cands = [j for j in insts if j != i and not (k == "set_shared" and j == op[2])]
                if cands:
                    other = cands[n % len(cands)]
                    odoc = DOCS[n % len(DOCS)]
                    before_other = (insts[other].render(odoc), dump(insts[other].parse(odoc)), dict(insts[other].options), insts[other].get_active_rules())
            if k == "mutate_preset":
                # the caller customises a preset dict it obtained from make() - its own copy, nobody else's business
                _, _, pname, chain, rname = op
                comp = user_preset[pname]["components"].get(chain) or {}
                if isinstance(comp.get("rules"), list):
                    comp["rules"].append(rname)
                    user_preset_snap[pname]["components"][chain]["rules"].append(rname)
                continue
            if k == "call":
                _, _, fn, doc, envmode = op
                doc = _doc(doc)
                if envmode == "none":
                    getattr(md, fn)(doc)
                elif envmode == "fresh":
                    getattr(md, fn)(doc, {})
                else:
                    getattr(md, fn)(doc, envs[envmode])
                parsed.add(i)
                if "]: " in doc:
                    defined_earlier = True
            elif k in ("enable", "disable"):
                getattr(md, k)(list(op[2]), True)
                recipes[i].append([k, i, list(op[2])])
                config_after_parse |= i in parsed
            elif k == "opt":
                _, _, route, key, val = op
                if route == "attr" and key in ATTR_OPTS:
                    setattr(md.options, key, val)
                elif route == "set":
                    full = dict(md.options)
                    full[key] = val
                    md.set(full)
                else:
                    md.options[key] = val
                recipes[i].append(["opt", i, "item", key, val])
                config_after_parse |= i in parsed
            elif k == "set_shared":
                _, _, j, upd = op
                if j in insts:
                    full = dict(MarkdownIt("commonmark").options)
                    full.update(upd)
                    full.pop("highlight", None)
                    full["highlight"] = None
                    snap = copy.deepcopy(full)
                    insts[i].set(full)
                    recipes[i].append(["set", copy.deepcopy(snap)])
                    if j != i:
                        insts[j].set(full)
                        recipes[j].append(["set", copy.deepcopy(snap)])
                    shared_updates.append((full, snap))
                    config_after_parse |= i in parsed
            elif k == "render_rule":
                md.add_render_rule(op[2], RENDER_RULES[op[2]])
                recipes[i].append(["render_rule", i, op[2]])
                config_after_parse |= i in parsed
            elif k == "configure":
                md.configure(op[2])
                recipes[i].append(["configure", i, op[2]])
                config_after_parse |= i in parsed
            elif k == "reset_block":
                _, _, names, doc, boom = op
                try:
                    with md.reset_rules():
                        md.enable(list(names), True) if n % 2 else md.disable(list(names), True)
                        md.render(doc)
                        if boom:
                            raise _Boom()
                except _Boom:
                    pass
                parsed.add(i)
            elif k == "probe":
                _, _, doc, envmode = op
                if defined_earlier and ("[r]" in doc or "[s]" in doc or "][r]" in doc):
                    probe_uses_earlier = True
                probe(i, doc, envmode, where, n)
                parsed.add(i)
            if other is not None:
                after_other = (insts[other].render(odoc), dump(insts[other].parse(odoc)), dict(insts[other].options), insts[other].get_active_rules())
                if after_other != before_other:
                    which = ["render", "parse", "options", "active rules"][[a != b for a, b in zip(after_other, before_other)].index(True)]
                    res.fail(f"other-instance-changed:{k}:{which}", f"{where}: instance {other} ({which}) changed although only instance {i} was configured")
        except _Boom:
            raise
        except Exception as e:  # noqa: BLE001
            from ..runner import lib_frame_of

            if lib_frame_of(e) is None:
                raise
            res.fail(f"unexpected-{type(e).__name__}", f"{where}: {e!r}")
        if res.v:
            break
    if not res.v:
        for p, outs in baseline.items():
            now = [MarkdownIt(p).render(dd) for dd in BDOCS]
            if now != outs:
                j = [a != b for a, b in zip(now, outs)].index(True)
                res.fail("new-instance-affected-by-history", f"a brand-new MarkdownIt({p!r}) renders {BDOCS[j]!r} as {now[j]!r}; before the history it gave {outs[j]!r}"[:600])
                break
    if mainmod._PRESETS != snap_presets:
        res.fail("module-presets-mutated", "markdown_it.main._PRESETS changed during the history")
        mainmod._PRESETS.clear()
        mainmod._PRESETS.update(copy.deepcopy(snap_presets))
    for nme, snap in snap_make.items():
        if getattr(presets, nme).make() != snap:
            res.fail("preset-make-mutated", nme)
    if user_preset != user_preset_snap:
        res.fail("caller-preset-dict-mutated", "a preset dict passed to the constructor was modified")
    for mapping, snap in shared_updates:
        if mapping != snap:
            res.fail("caller-options-mapping-mutated", f"{mapping!r} != {snap!r}"[:400])
    res.nt = len(insts) >= 2 and config_after_parse and probe_uses_earlier
    res.cls.append(f"instances:{len(insts)}")
    if config_after_parse:
        res.cls.append("config_after_parse")
    if probe_uses_earlier:
        res.cls.append("probe_uses_earlier_label")
    if shared_updates:
        res.cls.append("shared_mapping")
    return res

"""C02 - token streams are well nested, correctly levelled and tree-constructible."""
from __future__ import annotations

from hypothesis import strategies as st

from .. import cfg as C
from .. import gen
from ..runner import Res

ID = "C02"
LEVEL = "exploration"
RULE = (
    "cases = (document x configuration) with documents from the constructive generators (half of them inline-rich: "
    "emphasis/strike runs, links in images in links, raw HTML, entities, escapes), parsed with parse and parseInline; "
    "the oracle is a validity predicate over the stream, recursively through inline and image children. "
    "Non-trivial = some stream reaches nesting depth >= 2, or holds an image with >= 2 children, or a text token "
    "adjacent to an emphasis/strike tag still holds a delimiter character; distinct = distinct case hash."
)
ASSUMPTIONS = ["test-double linkifier where linkify is on"]
SHRINK = {"text": ["src"], "list": ["cfg.enable", "cfg.disable"], "keys": ["cfg.options"]}

VOCAB = {
    "paragraph_open", "paragraph_close", "heading_open", "heading_close", "blockquote_open", "blockquote_close",
    "bullet_list_open", "bullet_list_close", "ordered_list_open", "ordered_list_close", "list_item_open",
    "list_item_close", "table_open", "table_close", "thead_open", "thead_close", "tbody_open", "tbody_close",
    "tr_open", "tr_close", "th_open", "th_close", "td_open", "td_close", "hr", "code_block", "fence", "html_block",
    "inline", "definition", "text", "softbreak", "hardbreak", "code_inline", "em_open", "em_close", "strong_open",
    "strong_close", "s_open", "s_close", "link_open", "link_close", "image", "html_inline",
}
BLOCK_ONLY = {
    "paragraph_open", "paragraph_close", "heading_open", "heading_close", "blockquote_open", "blockquote_close",
    "bullet_list_open", "bullet_list_close", "ordered_list_open", "ordered_list_close", "list_item_open",
    "list_item_close", "table_open", "table_close", "thead_open", "thead_close", "tbody_open", "tbody_close",
    "tr_open", "tr_close", "th_open", "th_close", "td_open", "td_close", "hr", "code_block", "fence", "html_block",
    "inline", "definition",
}


def budget(tier: str) -> dict:
    return {"examples": 40000 if tier == "quick" else 1000000, "enum_tokens": 4 if tier == "quick" else 5}


def evidence_extra(tier, tot):
    n = budget(tier)["enum_tokens"]
    return {
        "enumeration": f"all concatenations of 1..{n} tokens over an {len(INLINE_ALPHABET)}-token inline alphabet ({sum(len(INLINE_ALPHABET) ** k for k in range(1, n + 1))} documents) x 2 configurations x parse/parseInline, complete",
        "exhaustive_subspace": True,
    }


@st.composite
def _case(draw):
    d = gen.D(draw)
    k = d.i(0, 9)
    if k < 3:
        src = gen.delim_soup(d) if d.chance(0.4) else "".join(gen.tight_nest(d) + d.pick(["", " "]) for _ in range(d.i(1, 3)))
        if d.chance(0.3):
            src = d.pick(["> ", "- ", "# ", "1. ", "| ", "  "]) + src
        if d.chance(0.2):
            src += "\n\n[r]: /u\n"
    elif k < 6:
        src = gen.inline(d, 0, False, 10)
        if d.chance(0.3):
            src = d.pick(["> ", "- ", "# ", "1. ", "| ", "  "]) + src
    else:
        src = gen.any_doc_d(d)
    return {"src": src, "cfg": gen.config_d(d)}


def strategy(tier: str):
    return _case()


# bounded-exhaustive part: every sequence of <= N inline "tokens" (small-scope hypothesis: delimiter and bracket
# mismatches need only a handful of tokens)
INLINE_ALPHABET = ["*", "**", "_", "~~", "[", "]", "](u)", "![", "`", "a", " ", "<b>", "&amp;", "\\*", "\n", "<http://x.y>", "(", "~~~"]
NEST_ALPHABET = ["*", "**", "_", "~~", "~~~", "[", "](u)", "![", "a", " ", "`"]
ENUM_CFGS = [C.simple("js-default", html=True, typographer=True), C.simple("commonmark", enable=["strikethrough"])]


def enumerate_cases(tier: str, shard: int, nshards: int):
    import itertools

    n = 4 if tier == "quick" else 5
    idx = 0
    for k in range(1, n + 1):
        for combo in itertools.product(INLINE_ALPHABET, repeat=k):
            idx += 1
            if idx % nshards != shard:
                continue
            yield {"kind": "enum", "src": "".join(combo)}


    # nesting alphabet: every concatenation of <= 5 (thorough 6) tokens
    for k in range(1, (5 if tier == "quick" else 6) + 1):
        for combo in itertools.product(NEST_ALPHABET, repeat=k):
            idx += 1
            if idx % nshards != shard:
                continue
            yield {"kind": "enum", "src": "".join(combo)}
    # the pathological families of C20 at two sizes: structure must also hold at scale
    from .c20 import F as FAMILIES

    for name in sorted(FAMILIES):
        for nn in (40, 700) if tier == "quick" else (40, 700, 8000):
            idx += 1
            if idx % nshards != shard:
                continue
            yield {"kind": "enum", "src": FAMILIES[name](nn), "family": name}


_EMD: dict = {}


def check_stream(tokens, block: bool, res: Res, path: str, stats: dict) -> None:
    stack = []
    prev_text = False
    for t in tokens:
        ty = t.type
        if t.nesting == -1:
            if not stack:
                res.fail(f"negative-depth:{path}:{ty}", f"closing {ty} with empty stack in {path}")
                return
            o = stack.pop()
            if not (
                o.type.endswith("_open")
                and ty.endswith("_close")
                and o.type[:-5] == ty[:-6]
                and o.tag == t.tag
                and o.markup == t.markup
            ):
                res.fail(
                    f"pair-mismatch:{path}:{o.type}/{ty}",
                    f"{o.type}(tag={o.tag!r},markup={o.markup!r}) closed by {ty}(tag={t.tag!r},markup={t.markup!r})",
                )
        elif t.nesting not in (0, 1):
            res.fail(f"bad-nesting-value:{path}:{ty}", repr(t.nesting))
        if t.level != len(stack):
            res.fail(f"level:{path}:{ty}", f"{ty}.level={t.level} but depth={len(stack)}")
        if t.nesting == 1:
            if not ty.endswith("_open"):
                res.fail(f"open-kind:{path}:{ty}", "nesting=1 on a token that is not X_open")
            stack.append(t)
            stats["maxdepth"] = max(stats["maxdepth"], len(stack))
        if t.nesting == 0 and (ty.endswith("_open") or ty.endswith("_close")):
            res.fail(f"nesting0-on-pair-kind:{path}:{ty}", "")
        if t.nesting == -1 and not ty.endswith("_close"):
            res.fail(f"close-kind:{path}:{ty}", "nesting=-1 on a token that is not X_close")
        if ty not in VOCAB:
            res.fail(f"vocabulary:{path}:{ty}", f"token kind {ty!r} outside the closed vocabulary (placeholder survived?) content={t.content!r}")
        if path == "parseInline-top":
            if ty != "inline":
                res.fail(f"parseInline-top:{ty}", "parseInline returned a non-inline top-level token")
        elif t.block != block:
            res.fail(f"block-flag:{path}:{ty}", f"{ty}.block={t.block} in {path}")
        if block and path != "parseInline-top" and ty not in BLOCK_ONLY:
            res.fail(f"inline-kind-at-block-level:{ty}", "")
        if not block and ty in BLOCK_ONLY:
            res.fail(f"block-kind-in-children:{path}:{ty}", "")
        if t.children is not None and ty not in ("inline", "image"):
            res.fail(f"children-on:{path}:{ty}", f"{ty} carries children")
        if ty == "text" and prev_text:
            res.fail(f"adjacent-text:{path}", "two adjacent text tokens")
        prev_text = ty == "text"
        if ty == "inline":
            if not isinstance(t.children, list):
                res.fail(f"inline-children-not-list:{path}", repr(type(t.children)))
            else:
                check_stream(t.children, False, res, "inline", stats)
        if ty == "image":
            if t.children is not None and not isinstance(t.children, list):
                res.fail("image-children-not-list", repr(type(t.children)))
            elif t.children:
                stats["image_children"] = max(stats["image_children"], len(t.children))
                check_stream(t.children, False, res, "image", stats)
        if ty in ("em_open", "em_close", "strong_open", "strong_close", "s_open", "s_close"):
            stats["emph"] = True
    if stack:
        res.fail(f"unclosed:{path}:{stack[-1].type}", [s.type for s in stack])


def _leftover(tokens) -> bool:
    for t in tokens:
        ch = t.children or []
        for i, c in enumerate(ch):
            if c.type == "text" and any(x in c.content for x in "*_~"):
                nb = ch[i - 1 : i] + ch[i + 1 : i + 2]
                if any(n.type[:2] in ("em", "st", "s_") for n in nb):
                    return True
    return False


def check(case) -> Res:
    from markdown_it.tree import SyntaxTreeNode

    if case.get("kind") == "concurrent":
        return check_concurrent(case)
    res = Res()
    src = case["src"]
    if case.get("kind") == "enum":
        if not _EMD:
            for i, c in enumerate(ENUM_CFGS):
                _EMD[i] = C.build(c)
        stats = {"maxdepth": 0, "image_children": 0, "emph": False}
        for i, md in _EMD.items():
            for toks, path in ((md.parse(src), "top"), (md.parseInline(src), "parseInline-top")):
                check_stream(toks, True, res, path, stats)
                try:
                    SyntaxTreeNode(toks)
                except Exception as e:  # noqa: BLE001
                    res.fail(f"tree-construction:{type(e).__name__}", repr(e))
        res.nt = stats["maxdepth"] >= 2 or stats["image_children"] >= 2
        res.cls.append("enum")
        return res
    md = C.build(case["cfg"])
    stats = {"maxdepth": 0, "image_children": 0, "emph": False}
    for mode in ("parse", "parseInline"):
        toks = md.parse(src) if mode == "parse" else md.parseInline(src)
        if not isinstance(toks, list):
            res.fail(f"not-a-list:{mode}", repr(type(toks)))
            continue
        n0 = len(res.v)
        check_stream(toks, True, res, "top" if mode == "parse" else "parseInline-top", stats)
        try:
            SyntaxTreeNode(toks)
        except Exception as e:  # noqa: BLE001
            res.fail(f"tree-construction:{mode}:{type(e).__name__}", repr(e))
        else:
            if len(res.v) == n0:
                pass
        if mode == "parse" and _leftover(toks):
            stats["leftover"] = True
    res.nt = stats["maxdepth"] >= 2 or stats["image_children"] >= 2 or bool(stats.get("leftover"))
    res.cls.append("depth>=2" if stats["maxdepth"] >= 2 else "depth<2")
    if stats["image_children"]:
        res.cls.append("image_with_children")
    if stats["emph"]:
        res.cls.append("has_emphasis_or_strike")
    if stats.get("leftover"):
        res.cls.append("delimiter_left_as_text")
    if case["cfg"]["linkify"]:
        res.cls.append("linkify_double")
    res.cls.append("preset:" + case["cfg"]["preset"])
    return res


CONC_DOCS = [
    ("1. a **b** \\* &amp; `c` ![i \\_ &lt;](/u)\n\n> *q* ~~s~~ [l *m*](v)\n", "# h \\# &#35;\n\n- *e* __f__ ![x *y* \\*](s) &copy;\n\n| a |\n|---|\n| *b* |\n"),
]
CONC_CFGS = [C.simple("commonmark"), C.simple("js-default")]
_CONC_WARM: set = set()


def concurrent_cases(tier: str, shard: int, nshards: int):
    """First use of a fresh instance by two parses at once (byte-code scheduler, call 1 pre-empted once): whatever C13
    says about the results, every stream that is returned must be well formed."""
    idx = 0
    for ci in range(len(CONC_CFGS)):
        for di in range(len(CONC_DOCS)):
            for focus, n in ((False, 48 if tier == "quick" else 600), (True, 240 if tier == "quick" else 4000)):
                for i in range(n):
                    idx += 1
                    if idx % nshards == shard:
                        yield {"kind": "concurrent", "cfgi": ci, "docs": di, "num": i, "den": n, "focus": focus}


def check_concurrent(case) -> Res:
    from markdown_it.tree import SyntaxTreeNode

    from .. import sched

    res = Res()
    cfg = CONC_CFGS[case["cfgi"]]
    docs = CONC_DOCS[case["docs"]]
    key = (case["cfgi"], case["docs"])
    if key not in _CONC_WARM:
        for dd in docs:
            C.build(cfg).parse(dd)
        _CONC_WARM.add(key)
    md0 = C.build(cfg)
    rec = sched.Sched([lambda: md0.parse(docs[0])], [], 10**7, record_focus=True)
    _r, counts = rec.run()
    if case.get("focus"):
        if not rec.focus:
            return res
        k = rec.focus[min(len(rec.focus) - 1, len(rec.focus) * case["num"] // case["den"])]
    else:
        k = max(1, counts[0] * case["num"] // case["den"])
    md = C.build(cfg)
    s = sched.Sched([lambda: md.parse(docs[0]), lambda: md.parse(docs[1])], [k, sched.BIG], 20 * counts[0] + 10**5)
    results, _ = s.run()
    res.cls.append("concurrent-first-use")
    res.nt = s.switches >= 1
    stats = {"maxdepth": 0, "image_children": 0, "emph": False}
    for i, r in enumerate(results):
        if r is not None and r[0] == "ok" and isinstance(r[1], list):
            check_stream(r[1], True, res, f"concurrent-parse-{i}", stats)
            try:
                SyntaxTreeNode(r[1])
            except Exception as e:  # noqa: BLE001
                res.fail(f"tree-construction:concurrent:{type(e).__name__}", repr(e))
        else:
            res.cls.append("concurrent:call-did-not-return(C13 decides)")
    return res


def extra_phase(tier, seed, shard, nshards, coll):
    """A deterministic concurrency clause in both tiers; thorough tier: an atheris (libFuzzer) campaign with this module's
    oracle inside the target."""
    for case in concurrent_cases(tier, shard, nshards):
        coll.run_case(case, "enum")
    if tier != "thorough":
        return
    from ..fuzz import atheris_phase

    atheris_phase(__import__("sys").modules[__name__], tier, seed, shard, nshards, coll, int(__import__("os").environ.get("VERIF_ATHERIS_SECONDS", "300")))

"""C07 - top-level blocks are parsed independently: documents compose by concatenation."""
from __future__ import annotations

import re

from hypothesis import strategies as st

from .. import cfg as C
from .. import gen
from ..runner import Res
from ..util import first_diff

ID = "C07"
CASE_TIMEOUT_S = 600  # pairs at scale parse ~10^5 tokens several times; the runner's guard is not a verdict
LEVEL = "exploration"
RULE = (
    "cases = pairs (A, B) of newline-terminated tab-free documents (constructive block generator, corpus, line soup; "
    "short single-block documents over-weighted so that many different block kinds meet at the seam) x "
    "configuration; side conditions are decided on probe parses: A ends closed (A + blank line + 'zzz' parses as A "
    "followed by a level-0 paragraph), B starts at column 0, the seam is not list+list. Oracle: block tokens of "
    "A+blank+B == block tokens of A+blank followed by those of B with maps shifted (children excluded). Non-trivial = "
    "both side conditions hold and A has >= 1 block and (A ends in a container/table/html/definition or B starts with "
    "one or either has >= 2 blocks); distinct = distinct case hash."
)
ASSUMPTIONS = [
    "A is compared together with its separating blank line (container maps legitimately extend over a blank line they consume)",
    "children are excluded because reference definitions act document-wide (as the property states)",
]
SHRINK = {"text": ["A", "B"], "list": ["cfg.enable", "cfg.disable"], "keys": ["cfg.options"]}

FIXED_CFGS = [
    C.simple("commonmark"), C.simple("js-default"), C.simple("commonmark", enable=["table"], disable=["code"]),
    C.simple("js-default", html=True), C.simple("zero", enable=["list", "blockquote", "heading", "lheading", "hr", "fence"]),
]
SINGLE = [
    "a\n", "intro\n", "# h\n", "a\n===\n", "a\n---\n", "---\n", "***\n", "> q\n", "> q\nlazy\n", "- a\n", "- a\n- b\n", "- a\n\n- b\n", "1. a\n", "2. x\n", "7) x\n",
    "-\n", "+\n", "- a\n-\n", "-\n- b\n", "```\nc\n```\n", "~~~\nc\n~~~\n", "    code\n", "<div>\nx\n</div>\n", "<!-- c -->\n", "[r]: /u\n", "[r]: /u\n'title'\n",
    "a|b\n-|-\n1|2\n", "|a|\n|-|\n", "> - a\n", "- > a\n", "- a\n  - b\n", "> # h\n", "> ```\n> c\n", "- ```\n  c\n  ```\n", "*e*\n", "a  \nb\n", "> a\n> ===\n",
    "# h\n- a\n-\n", "> q\n2. x\n", "- a\n\n  b\n", "1. a\n\n   b\n2. c\n", "* a\n+ b\n", "> a\n\n> b\n", "<pre>\n\nx\n</pre>\n", "[a]: /u\n[b]: /v\n", "a\n- b\n",
    "a\n1. b\n", "a\n2. b\n", "[r]: /u\n\ntext [r]\n", "[r]: javascript:x\n", "[r]: data:text/html,x\n\n# after\n", "[R]: /v 'T'\n", "[r]: <\n", "[r]: /u \"t\n", "text [r] ![r]\n", "a|b\n-|-\nc|d\n2. x\n", "a|b\n-|-\nc|d\n-\n", "|a|\n|-|\n7) x\n", "a|b\n-|-\n> q\n", "- a\n  - b\n", "1. a\n   1. b\n", "> - a\n>   - b\n", "a\n> b\n", "a\n# b\n", "a\n```\nb\n```\n", "  a\n", "   # h\n", "- a\n\n\n  b\n", "-   a\n\n    b\n", "10. a\n    b\n",
]


def budget(tier: str) -> dict:
    return {"examples": 40000 if tier == "quick" else 1000000}


def _doc(d: gen.D) -> str:
    k = d.i(0, 9)
    if k < 4:
        s = d.pick(SINGLE)
        if d.chance(0.3):
            s += d.pick(["", "\n"]) + d.pick(SINGLE)
    elif k < 7:
        s = gen.block_doc_d(d, tabs=False, maxdepth=2, final_newline=True, perturbed=d.chance(0.3))
    elif k < 9:
        s = gen.corpus_doc_d(d, tabs=False)
    else:
        s = gen.leaves_doc_d(d, tabs=False, max_lines=4)
    s = s.replace("\t", "  ").replace("\r", "").replace("\0", "")
    if not s.endswith("\n"):
        s += "\n"
    return s


@st.composite
def _case(draw):
    d = gen.D(draw)
    A = _doc(d)
    B = _doc(d)
    cfg = gen.maybe_late(d, d.pick(FIXED_CFGS)) if d.chance(0.7) else gen.config_d(d, allow_linkify=False)
    # a share of pairs has A preceded by neutral paragraphs, so that the whole input crosses size thresholds (16 K, 64 K)
    # while B alone stays small
    pad = d.pick([16400, 16400, 16400, 33000, 66000]) if d.chance(0.012) else 0
    return {"A": A, "B": B, "cfg": cfg, "pad": pad}


def strategy(tier: str):
    return _case()


def enumerate_cases(tier: str, shard: int, nshards: int):
    """A few pairs at scale (guards with per-table / per-document budgets must not leak from A into B)."""
    from .c20 import F as FAMILIES

    big = [("table_sparse_square", 250), ("table_sparse_square", 128), ("bq_nested", 60), ("list_nested", 900), ("brackets_nested", 300), ("refdefs_separated", 200), ("html_blocks", 200)]
    small = [("table_sparse_square", 60), ("table_rows", 30), ("bq_lines", 5), ("list_flat", 5), ("link_flat", 10), ("refdefs_separated", 5)]
    idx = 0
    for an, ak in big:
        for bn, bk in small:
            if an == "table_sparse_square" and bn not in ("table_sparse_square", "table_rows", "list_flat"):
                continue
            for ci in (1,) if an == "table_sparse_square" else (1, 0):
                idx += 1
                if idx % nshards != shard:
                    continue
                A = FAMILIES[an](ak)
                B = FAMILIES[bn](bk)
                A = A if A.endswith("\n") else A + "\n"
                B = B if B.endswith("\n") else B + "\n"
                if an == "table_sparse_square" and ak == 128:
                    A = (A + "\n") * 4
                yield {"A": A, "B": B, "cfg": FIXED_CFGS[ci], "scale": True}


def norm(tokens, shift: int = 0):
    out = []
    for t in tokens:
        d = t.as_dict(children=False)
        d["children"] = None if d["children"] is None else "X"
        if d["map"] is not None:
            d["map"] = [d["map"][0] + shift, d["map"][1] + shift]
        out.append(d)
    return out


SPECIAL_END = ("list_close", "blockquote_close", "table_close", "html_block", "definition")
SPECIAL_START = ("list_open", "blockquote_open", "table_open", "html_block", "fence", "code_block", "hr")


def check(case) -> Res:
    res = Res()
    A, B = case["A"], case["B"]
    if case.get("pad"):
        para = "neutral paragraph number one, plain words only, sixty chars\n\n"
        A = para * (case["pad"] // len(para) + 1) + A
        res.cls.append("A-padded-to-scale")
    if not (A.endswith("\n") and B.endswith("\n")) or any(c in A + B for c in "\t\r\0"):
        res.cls.append("outside-domain")
        return res
    if B[0] in " \n":
        res.cls.append("skip:B-indented-or-blank")
        return res
    md = C.build(case["cfg"])
    A1 = A + "\n"
    n = A1.count("\n")
    tA = norm(md.parse(A1))
    probe = norm(md.parse(A1 + "zzz\n"))
    closed = (
        len(probe) >= 3
        and probe[:-3] == tA
        and [p["type"] for p in probe[-3:]] == ["paragraph_open", "inline", "paragraph_close"]
        and probe[-3]["level"] == 0
        and probe[-3]["map"] == [n, n + 1]
        and probe[-2]["content"] == "zzz"
    )
    if not closed:
        res.cls.append("skip:A-not-closed")
        return res
    tB = norm(md.parse(B), n)
    b_first = B.split("\n", 1)[0]
    if tA and tA[-1]["type"].endswith("list_close") and re.match(r" {0,3}(?:[-+*]|\d{1,9}[.)])(?:[ \t]|$)", b_first):
        # B's first line is (also) a list item start: inside A's list it continues that list, whatever B is alone
        res.cls.append("skip:list+list")
        return res
    if tA and tB and tA[-1]["type"].endswith("list_close") and tB[0]["type"].endswith("list_open"):
        res.cls.append("skip:list+list")
        return res
    if tA and tB and tA[-1]["type"] == "code_block" and tB[0]["type"] == "code_block":
        res.cls.append("skip:code+code")
        return res
    res.cls.append("checked")
    # A followed by its separating blank line has the block structure of A alone (container maps may extend
    # over the blank line they consume - nothing else may change, in particular not the tight/loose flags)
    nA = A.count("\n")
    t_alone = norm(md.parse(A))
    clamp = lambda ts: [dict(t, map=(None if t["map"] is None else [t["map"][0], min(t["map"][1], nA)])) for t in ts]  # noqa: E731
    last_leaf = next((t["type"] for t in reversed(t_alone) if t["nesting"] >= 0), "")
    if last_leaf in ("fence", "html_block", "code_block"):
        res.cls.append("A-ends-in-verbatim(blank line may belong to it)")
    elif clamp(tA) != clamp(t_alone):
        res.fail("blank-line-after-A-changes-A", f"A={A!r}: {first_diff(clamp(tA), clamp(t_alone))}")
    tAB = norm(md.parse(A1 + B))
    if tAB != tA + tB:
        exp = tA + tB
        res.fail("concatenation-differs", f"A={A!r} B={B!r}: {first_diff(tAB, exp)}")
    nA = sum(1 for t in tA if t["level"] == 0 and t["nesting"] >= 0)
    nB = sum(1 for t in tB if t["level"] == 0 and t["nesting"] >= 0)
    res.nt = bool(tA) and (
        any(tA[-1]["type"].endswith(s) for s in SPECIAL_END) or (bool(tB) and any(tB[0]["type"].endswith(s) for s in SPECIAL_START)) or nA >= 2 or nB >= 2
    )
    if tA:
        res.cls.append("A-ends:" + tA[-1]["type"])
    if tB:
        res.cls.append("B-starts:" + tB[0]["type"])
    return res

"""C17 - equivalent encodings parse identically: line endings, NUL, structural tabs."""
from __future__ import annotations

import itertools
import re

from hypothesis import strategies as st

from .. import cfg as C
from .. import gen
from ..runner import Res
from ..util import dump, first_diff, walk_tokens

ID = "C17"
LEVEL = "exploration"
RULE = (
    "five relations: (a) each LF of a CR-free document respelled LF/CRLF/CR uniformly and mixed -> tokens (incl. maps), "
    "env and HTML equal; (b) U+0000 vs U+FFFD equal, and no NUL (nor CR, unless written as a numeric reference) in any "
    "string of tokens or env; (c) every line's leading blank run vs its column-exact space expansion; (d) constructed "
    "single lines of <= 2 (thorough: sampled 3) container segments (0-3 columns indent, marker '>', bullet or ordered, "
    "1-4 columns of blanks) + tab-free leaf, every blank run in every spelling whose tabs end exactly on a tab stop vs "
    "all spaces - ENUMERATED COMPLETELY for <= 2 segments; (e) in arbitrary multi-line documents one or more blank "
    "runs that a probe parse shows to be structural (indentation / after a quote or list marker) respelled with "
    "column-equivalent tabs. Non-trivial = the two variants differ as strings (for (d): >= 2 segments and a tab after "
    "a marker); distinct = distinct case hash."
)
ASSUMPTIONS = [
    "for the tab relations, verbatim block content is compared after collapsing blank runs per line, code spans after collapsing blank runs and trimming, every other string after deleting blanks that follow a line break - the exemptions the property grants (leading whitespace surviving into verbatim blocks / continued code spans / continuation lines of multi-line titles and raw HTML)",
    "(e): a blank run counts as structural only if the probe parse of the space spelling shows that no content starts before its end (conservative)",
]
SHRINK = {"text": ["src"], "list": ["spell", "cfg.enable", "cfg.disable"], "keys": ["cfg.options"]}

MARKERS = [">", "-", "*", "+", "1.", "12)"]
LEAVES = ["x", "- y", "> z", "# h", "---", "```", "    code", "x  y", "[a]: /u", "<div>", "1. k", "`c`", "", "-", ">"]
PREFIX_RE = re.compile(r"^(?:[ \t]*(?:>|[-+*]|\d{1,9}[.)]))*[ \t]*$")
FIXED_CFGS = [C.simple("commonmark"), C.simple("js-default"), C.simple("commonmark", enable=["table"], disable=["code"]), C.simple("js-default", html=True, typographer=True)]


def budget(tier: str) -> dict:
    if tier == "quick":
        return {"examples": 36000, "enum_segments": 2, "three_seg_samples": 0}
    return {"examples": 1200000, "enum_segments": 2, "three_seg_samples": 400000}


# --------------------------------------------------------------------------------------------
# generators


CONT_DOCS = [
    "[foo\nbar]\n\n[foo bar]: /u\n", "[foo bar]\n\n[foo\nbar]: /u\n", "[t][foo\nbar baz]\n\n[foo bar\nbaz]: /u 'x\ny'\n", "![foo\nbar][]\n\n[foo bar]: /u\n",
    "> [a\n> b][]\n>\n> [a b]: /u\n", "- [t][x\n  y]\n\n[x y]: /u\n", "[a](/u 'x\ny') *c\nd* `e\nf` <a\nhref=x> text\nmore\n", "[a](\n/u\n'x') and <http://a.b/c\nd>\n",
    "a\nb\n===\n", "[r]:\n/u\n'title\nmore'\n\n[r]\n", "[Foo\nBar\nBaz]: /u\n\n[foo bar\nbaz] [FOO\nBAR BAZ][]\n", "1. [p\n   q]\n\n[p q]: /u\n",
    "[a\nb]: /u\n[a\nb]: /v\n\n[a b]\n", "![x\ny](/u \"t\nu\")\n", "**s\nt** ~~u\nv~~ [w\nx](/u)\n",
]


@st.composite
def _case(draw):
    d = gen.D(draw)
    kind = d.weighted([(3, "eol"), (2, "nul"), (3, "leading"), (5, "structural"), (2, "seg3"), (3, "quoted-list")])
    cfg = gen.maybe_late(d, d.pick(FIXED_CFGS)) if d.chance(0.7) else gen.config_d(d)
    if kind == "eol":
        src = gen.any_doc_d(d).replace("\r", "")
        n = src.count("\n")
        mode = d.pick(["crlf", "cr", "mixed", "mixed"])
        spell = [d.i(0, 2) for _ in range(min(n, 40))] if mode == "mixed" else []
        return {"kind": kind, "src": src, "cfg": cfg, "mode": mode, "spell": spell}
    if kind == "nul":
        src = gen.any_doc_d(d)
        for _ in range(d.i(1, 3)):
            i = d.i(0, len(src))
            src = src[:i] + "\0" + src[i:]
        return {"kind": kind, "src": src, "cfg": cfg}
    if kind == "leading":
        src = gen.any_doc_d(d).replace("\r", "")
        if d.chance(0.2):
            # inline constructs that continue on the next line (labels, link text, titles, destinations, code spans, raw
            # HTML, definitions): the continuation line's indentation reaches the inline parser as written
            src = d.pick(CONT_DOCS)
        lines = src.split("\n")
        out = []
        for ln in lines:
            if d.chance(0.5):
                ind = d.pick([0, 0, 1, 2, 3, 4, 4, 5, 6, 8, 9])
                ln = " " * ind + ln
                m = re.match(r" *", ln)
                nsp = len(m.group(0))
                if nsp:
                    opts = [o for o in gen.tab_spellings(0, nsp) if "\t" in o]
                    if opts:
                        ln = d.pick(opts) + ln[nsp:]
            out.append(ln)
        return {"kind": kind, "src": "\n".join(out), "cfg": cfg}
    if kind == "quoted-list":
        # a list inside a block quote whose lines carry quote prefixes of different widths; continuation lines after
        # a blank line sit at, just below or just above the item's content indent
        lines = []
        ordered = d.chance(0.4)
        for it in range(d.i(2, 3)):
            marker = f"{it + 1}." if ordered else d.pick(["-", "*"])
            bl = d.i(1, 4)
            lines.append(marker + " " * bl + d.pick(["a", "b c", "x"]))
            if d.chance(0.6):
                lines.append("")
                lines.append(" " * max(0, len(marker) + bl + d.pick([0, 0, -1, 1])) + d.pick(["c", "- n", "d e"]))
        src = "\n".join(d.pick([">", "> ", " > ", ">  ", "  >", "> > ", ">> "]) + ln for ln in lines) + "\n"
        return {"kind": "structural", "src": src, "cfg": cfg, "spell": [d.i(0, 10**6) for _ in range(8)], "all_runs": True}
    if kind == "seg3":
        segs = [[d.i(0, 3), d.pick(MARKERS), d.i(1, 4)] for _ in range(3)]
        return {"kind": "segments", "segs": segs, "leaf": d.pick(LEAVES), "spell": [d.i(0, 7) for _ in range(6)], "cfg": C.simple("commonmark")}
    src = gen.block_doc_d(d, tabs=False, maxdepth=3, perturbed=d.chance(0.3)) if d.chance(0.8) else gen.corpus_doc_d(d, tabs=False)
    src = src.replace("\r", "").replace("\t", "  ")
    return {"kind": kind, "src": src, "cfg": cfg, "spell": [d.i(0, 10**6) for _ in range(8)]}


def strategy(tier: str):
    return _case()


def enumerate_cases(tier: str, shard: int, nshards: int):
    idx = 0
    for nseg in range(1, budget(tier)["enum_segments"] + 1):
        for segs in itertools.product(itertools.product(range(0, 4), MARKERS, range(1, 5)), repeat=nseg):
            idx += 1
            if idx % nshards != shard:
                continue
            yield {"kind": "segments-all", "segs": [list(s) for s in segs]}


# --------------------------------------------------------------------------------------------
# normalisation for the tab relations


def _fix_str(s, verbatim=False, codespan=False):
    if not isinstance(s, str):
        return s
    if verbatim:
        return "\n".join(re.sub(r"[ \t]+", " ", ln.strip(" \t")) for ln in s.split("\n"))
    if codespan:
        return re.sub(r"[ \t]+", " ", s).strip(" ")
    return re.sub(r"\n[ \t]+", "\n", s)


def norm_tab(tokens):
    out = []
    for t in tokens:
        d = t.as_dict()

        def fix(d):
            ty = d["type"]
            d["content"] = _fix_str(d["content"], ty in ("code_block", "fence", "html_block"), ty == "code_inline")
            if d.get("attrs"):
                d["attrs"] = [[k, _fix_str(v)] for k, v in d["attrs"]]
            if d.get("meta"):
                d["meta"] = {k: _fix_str(v) for k, v in d["meta"].items()}
            for c in d.get("children") or []:
                fix(c)

        fix(d)
        out.append(d)
    return out


def norm_env(env):
    def rec(x):
        if isinstance(x, dict):
            return {k: rec(v) for k, v in x.items()}
        if isinstance(x, list):
            return [rec(v) for v in x]
        return _fix_str(x)

    return rec(env)


def build_line(segs, leaf, chooser):
    """segs: list of (indent, marker, blanks) -> (space spelling, tab spelling)."""
    sp = tb = ""
    col = 0
    for ind, mk, bl in segs:
        for width in (ind, None, bl):
            if width is None:
                sp += mk
                tb += mk
                col += len(mk)
                continue
            if width == 0:
                continue
            opts = gen.tab_spellings(col, col + width)
            sp += " " * width
            tb += chooser(opts)
            col += width
    return sp + leaf, tb + leaf


# --------------------------------------------------------------------------------------------


def _strings(tokens, env):
    for t in walk_tokens(tokens):
        yield t.type + ".content", t.content
        yield t.type + ".markup", t.markup
        yield t.type + ".info", t.info
        for k, v in (t.attrs or {}).items():
            if isinstance(v, str):
                yield t.type + ".attrs." + str(k), v
        for k, v in (t.meta or {}).items():
            if isinstance(v, str):
                yield t.type + ".meta." + str(k), v

    def rec(x, path):
        if isinstance(x, dict):
            for k, v in x.items():
                if isinstance(k, str):
                    yield path + ".key", k
                yield from rec(v, path + "." + str(k)[:10])
        elif isinstance(x, list):
            for v in x:
                yield from rec(v, path)
        elif isinstance(x, str):
            yield path, x

    yield from rec(env, "env")


def compare_exact(md, A: str, B: str, res: Res, tag: str) -> None:
    ea: dict = {}
    eb: dict = {}
    ta = dump(md.parse(A, ea))
    tb = dump(md.parse(B, eb))
    if ta != tb:
        res.fail(f"{tag}:tokens-differ", f"{A!r} vs {B!r}: {first_diff(ta, tb)}"[:600])
        return
    if ea != eb:
        res.fail(f"{tag}:env-differs", f"{A!r} vs {B!r}"[:400])
    ha, hb = md.render(A), md.render(B)
    if ha != hb:
        res.fail(f"{tag}:html-differs", f"{A!r} vs {B!r}: {ha!r} != {hb!r}"[:600])
    ia, ib = dump(md.parseInline(A)), dump(md.parseInline(B))
    if ia != ib:
        res.fail(f"{tag}:parseInline-differs", f"{A!r} vs {B!r}: {first_diff(ia, ib)}"[:600])
    elif md.renderInline(A) != md.renderInline(B):
        res.fail(f"{tag}:renderInline-differs", f"{A!r} vs {B!r}"[:400])


def compare_tab(md, S: str, T: str, res: Res, tag: str) -> None:
    es: dict = {}
    et: dict = {}
    a = norm_tab(md.parse(S, es))
    b = norm_tab(md.parse(T, et))
    if a != b:
        res.fail(f"{tag}:tokens-differ", f"spaces {S!r} vs tabs {T!r}: {first_diff(a, b)}"[:600])
    elif norm_env(es) != norm_env(et):
        res.fail(f"{tag}:env-differs", f"spaces {S!r} vs tabs {T!r}"[:400])


def expand_leading(line: str) -> str:
    m = re.match(r"[ \t]*", line)
    ws = m.group(0)
    col = 0
    for ch in ws:
        col = (col // 4 + 1) * 4 if ch == "\t" else col + 1
    return " " * col + line[len(ws) :]


_CM = {}


def _cm():
    if "md" not in _CM:
        _CM["md"] = C.build(C.simple("commonmark"))
    return _CM["md"]


def structural_runs(md, src: str):
    """(line index, start, end) of space runs of the tab-free src that a probe parse shows to be structural."""
    lines = src.split("\n")
    toks = md.parse(src)
    content_start: dict[int, int] = {}
    for t in toks:
        if t.map and t.type in ("inline", "code_block", "fence", "html_block"):
            b, e = t.map
            cl = t.content.split("\n")
            off = 1 if t.type == "fence" else 0
            for i, c in enumerate(cl):
                li = b + off + i
                if li >= e or li >= len(lines):
                    break
                cs = c.strip(" ")
                pos = lines[li].find(cs) if cs else len(lines[li])
                if pos < 0:
                    pos = 0
                content_start[li] = min(content_start.get(li, 10**9), pos)
            if t.type == "fence":
                content_start[b] = min(content_start.get(b, 10**9), len(lines[b]) - len(lines[b].lstrip(" >-+*0123456789.)")))
    out = []
    for li, ln in enumerate(lines):
        cstart = content_start.get(li)
        for m in re.finditer(r" +", ln):
            if not PREFIX_RE.match(ln[: m.start()]):
                break
            if cstart is not None and m.end() > cstart:
                continue
            if cstart is None and m.end() < len(ln) and ln[m.end()] not in ">-+*0123456789":
                # no content token starts on this line (hr, setext underline, fence opener...): only runs
                # directly in front of a further marker are treated as structural
                continue
            out.append((li, m.start(), m.end()))
    return out


def check(case) -> Res:
    res = Res()
    kind = case["kind"]
    res.cls.append(kind)
    if kind == "segments-all":
        md = _cm()
        segs = [tuple(s) for s in case["segs"]]
        n = 0
        keys = []
        for leaf in LEAVES:
            parts = []
            col = 0
            for ind, mk, bl in segs:
                if ind:
                    parts.append(("b", col, col + ind))
                    col += ind
                parts.append(("m", mk))
                col += len(mk)
                parts.append(("b", col, col + bl))
                col += bl
            opts = [gen.tab_spellings(p[1], p[2], 64) if p[0] == "b" else [p[1]] for p in parts]
            S = "".join(" " * (p[2] - p[1]) if p[0] == "b" else p[1] for p in parts) + leaf
            a = norm_tab(md.parse(S + "\n"))
            for combo in itertools.product(*opts):
                T = "".join(combo) + leaf
                if T == S:
                    continue
                n += 1
                b = norm_tab(md.parse(T + "\n"))
                if a != b:
                    res.fail("segments:tokens-differ", f"spaces {S!r} vs tabs {T!r}: {first_diff(a, b)}"[:500])
                    break
                if len(segs) >= 2 and len(keys) < 3:
                    keys.append(T)
        res.n = max(1, n)
        res.nt_keys = keys
        res.nt = len(segs) >= 2
        return res
    md = C.build(case["cfg"])
    if kind == "segments":
        sp = case.get("spell") or [0]
        it = iter(range(10**6))
        S, T = build_line([tuple(s) for s in case["segs"]], case["leaf"], lambda o: o[sp[next(it) % len(sp)] % len(o)])
        res.nt = S != T
        if S != T:
            compare_tab(md, S + "\n", T + "\n", res, "segments3")
        return res
    src = case["src"]
    if kind == "eol":
        if "\r" in src:
            res.cls.append("outside-domain")
            return res
        mode = case["mode"]
        if mode == "crlf":
            B = src.replace("\n", "\r\n")
        elif mode == "cr":
            B = src.replace("\n", "\r")
        else:
            sp = case.get("spell") or [1]
            out = []
            k = 0
            prev_cr = False
            for ch in src:
                if ch == "\n":
                    s = ["\n", "\r\n", "\r"][sp[k % len(sp)] % 3]
                    k += 1
                    if prev_cr and s == "\n":
                        s = "\r\n"  # a lone CR directly before an LF would merge into one CRLF
                    out.append(s)
                    prev_cr = s == "\r"
                else:
                    out.append(ch)
                    prev_cr = False
            B = "".join(out)
        res.nt = B != src
        compare_exact(md, src, B, res, "eol:" + mode)
        return res
    if kind == "nul":
        B = src.replace("\0", "�")
        res.nt = B != src
        compare_exact(md, src, B, res, "nul")
        env: dict = {}
        toks = md.parse(src, env)
        has_cr_ref = bool(re.search(r"&#(?:0*13|[xX]0*[dD]);", src))
        env_i: dict = {}
        toks_i = md.parseInline(src, env_i)
        for where, s in list(_strings(toks, env)) + [("parseInline:" + w, s2) for w, s2 in _strings(toks_i, env_i)]:
            if "\0" in s:
                res.fail("nul:reaches-output", f"{where} = {s!r}")
                break
            if "\r" in s and not has_cr_ref:
                res.fail("cr:reaches-output", f"{where} = {s!r}")
                break
        return res
    if kind == "leading":
        T = src
        S = "\n".join(expand_leading(ln) for ln in src.split("\n"))
        res.nt = S != T
        if S != T:
            compare_tab(md, S, T, res, "leading-tabs")
        return res
    # structural respelling in an arbitrary document
    if "\t" in src or "\r" in src:
        res.cls.append("outside-domain")
        return res
    runs = structural_runs(md, src)
    if not runs:
        res.cls.append("structural:no-run")
        return res
    sp = case.get("spell") or [0]
    lines = src.split("\n")
    chosen = {}
    if case.get("all_runs"):
        # respell one structural run on every line that has one
        by_line: dict = {}
        for li, s_, e_ in runs:
            by_line.setdefault(li, []).append((s_, e_))
        for n_, (li, rs) in enumerate(sorted(by_line.items())):
            s_, e_ = rs[sp[n_ % len(sp)] % len(rs)]
            opts = [o for o in gen.tab_spellings(s_, e_) if "\t" in o]
            if opts and sp[(n_ + 3) % len(sp)] % 4:
                chosen[li] = (s_, e_, opts[sp[(n_ + 1) % len(sp)] % len(opts)])
    for j in range(0 if case.get("all_runs") else 1 + sp[0] % 3):
        li, s, e = runs[sp[(1 + 2 * j) % len(sp)] % len(runs)]
        if li in chosen:
            continue
        opts = [o for o in gen.tab_spellings(s, e) if "\t" in o]
        if opts:
            chosen[li] = (s, e, opts[sp[(2 + 2 * j) % len(sp)] % len(opts)])
    for li, (s, e, rep) in chosen.items():
        lines[li] = lines[li][:s] + rep + lines[li][e:]
    T = "\n".join(lines)
    res.nt = T != src
    if T != src:
        res.cls.append("structural:respelled")
        if any(li > 0 for li in chosen):
            res.cls.append("structural:continuation-line")
        compare_tab(md, src, T, res, "structural-tabs")
    return res


def evidence_extra(tier, tot):
    return {
        "exhaustive_subspace": True,
        "enumeration": "(d): all lines of 1..2 container segments x 15 leaves x every tab spelling (tabs ending on a tab stop) vs all-space spelling, complete",
    }

"""C14 - an exception escaping from user code leaves the instance intact."""
from __future__ import annotations

import copy

from hypothesis import strategies as st

from .. import cfg as C
from .. import gen
from ..runner import Res
from ..util import dump, first_diff

ID = "C14"
LEVEL = "fault_enumeration"
RULE = (
    "cases = (document x configuration x entry point); every active rule of the chains core/block/inline/inline2 is "
    "replaced through the public Ruler.at by a counting wrapper (same alt list), every render rule by a wrapper via "
    "add_render_rule, and a highlight callback is installed; a counting pass gives the number of invocations of each "
    "callback during the call, then the crash points (callback, i-th invocation) are enumerated - all of them in the "
    "thorough tier, a per-callback stratified sample (first, last, and a generated selection) in the quick tier - and "
    "at each an exception (thorough: up to 40 invocation indices per callback, i.e. all of them for all but the busiest rules) (Exception subclass, KeyError, IndexError, BaseException subclass) is injected. Plus "
    "reset_rules bodies (enable/disable of generated rule sets, parses) leaving normally, by exception, nested two "
    "deep. Oracle: the very exception object reaches the caller; active rules, all rules and options equal their "
    "values before the call (for reset_rules: on entry); three probe documents parse and render exactly as on a "
    "control instance with the same wrappers that never raised. evaluations counts crash points; non-trivial = crash "
    "point at invocation >= 2 of its callback (i.e. inside an ongoing tokenize / after earlier output) or a reset_rules "
    "exit by exception; distinct = (case hash, crash point)."
)
ASSUMPTIONS = ["wrappers obtain the original function and alt list from Ruler.__rules__ (introspection only; replacement goes through the public Ruler.at / add_render_rule)"]
SHRINK = {"text": ["src"], "list": ["picks", "body"]}

PROBES = [
    "# h\n\n- a *b* `c`\n\n> q [l](u) ![i](s) <http://a.b> &amp; \\*\n\n```py\nf\n```\n\n[r]: /u\n\n[r] \"q\"\n",
    "| t |\n|---|\n| u |\n\n1. x\n\n    code\n\na  \nb ~~s~~\n\n***\n",
    "*e* **s** <b>h</b>\n\n<div>\nx\n</div>\n",
]
RULE_NAMES = ["balance_pairs", "fragments_join", "table", "strikethrough", "emphasis", "link", "image", "list", "blockquote", "fence", "code", "reference", "backticks", "heading", "smartquotes", "replacements", "entity", "escape", "html_inline", "html_block", "autolink", "hr", "lheading", "newline"]
EXC_KINDS = [
    "Exception", "KeyError", "IndexError", "BaseException", "StopIteration", "RecursionError", "TypeError", "ValueError", "AttributeError",
    "AssertionError", "ModuleNotFoundError", "NotImplementedError", "ZeroDivisionError", "LookupError", "UnicodeError", "GeneratorExit",
    "StopAsyncIteration", "OSError", "MemoryError", "NameError", "ImportError", "RuntimeError",
]


class InjectedError(Exception):
    pass


class InjectedBase(BaseException):
    pass


def make_exc(kind: str):
    if kind == "KeyError":
        return KeyError("injected")
    if kind == "IndexError":
        return IndexError("injected")
    if kind == "BaseException":
        return InjectedBase("injected")
    if kind == "StopIteration":
        return StopIteration("injected")
    if kind == "RecursionError":
        return RecursionError("injected")
    if kind != "Exception":
        import builtins

        return getattr(builtins, kind)("injected")
    return InjectedError("injected")


def budget(tier: str) -> dict:
    if tier == "quick":
        return {"examples": 3200, "per_callback": 3}
    return {"examples": 12000, "per_callback": 40}


_TIER = {"per_callback": 3}


@st.composite
def _case(draw):
    d = gen.D(draw)
    if d.chance(0.2):
        def body(depth):
            steps = []
            for _ in range(d.i(1, 4)):
                k = d.weighted([(4, "enable"), (4, "disable"), (2, "parse"), (2 if depth < 2 else 0, "block")])
                if k in ("enable", "disable"):
                    steps.append([k, [d.pick(RULE_NAMES) for _ in range(d.i(1, 3))]])
                elif k == "parse":
                    steps.append(["parse", d.pick(PROBES)])
                else:
                    steps.append(["block", body(depth + 1), d.pick(["normal", "raise", "raise"]), d.pick(EXC_KINDS)])
            return steps

        pre = []
        for _ in range(d.i(0, 2)):
            # per-chain switches made directly on a ruler (public attribute), so that chains sharing a rule name differ
            if d.chance(0.35):
                # a chain narrowed (possibly to nothing) directly on its ruler; the progress-guaranteeing rules stay
                ch = d.pick(["inline2", "inline2", "inline", "block"])
                keep = {"inline2": d.pick([[], ["balance_pairs"], ["fragments_join"]]), "inline": ["text"], "block": ["paragraph"]}[ch]
                pre.append([ch, "enableOnly", keep])
            else:
                pre.append([d.pick(["inline", "inline2", "core"]), d.pick(["enable", "disable"]), d.pick(["emphasis", "strikethrough", "linkify"])])
        b = body(1)
        if d.chance(0.3):
            ch = d.pick(["inline2", "inline2", "inline", "block"])
            keep = {"inline2": d.pick([[], [], ["balance_pairs"]]), "inline": ["text"], "block": ["paragraph"]}[ch]
            pre = pre[:1] + [[ch, "enableOnly", keep]]
        if pre and d.chance(0.6):
            # switch on rules of the chain that was narrowed, and use the instance, before leaving the block
            ch = pre[-1][0]
            names = {"inline2": ["emphasis", "strikethrough", "balance_pairs", "fragments_join"], "inline": ["emphasis", "backticks", "link", "escape"], "block": ["list", "heading", "blockquote", "fence"], "core": ["replacements", "smartquotes"]}[ch]
            # (all of them with probability 1/2: a post-processing rule alone shows nothing without its companions)
            chosen = list(names) if d.chance(0.7) else [d.pick(names) for _ in range(d.i(1, 2))]
            b = [["enable", chosen], ["parse", d.pick(PROBES)]] + b
        # the context manager object may be created first and entered later, with rule switches in between: what is
        # restored is what was in force on entry
        between = [[d.pick(["enable", "disable"]), [d.pick(RULE_NAMES) for _ in range(d.i(1, 2))]] for _ in range(d.i(1, 2))] if d.chance(0.3) else []
        return {"kind": "reset", "cfg": gen.config_d(d, allow_linkify=False), "pre": pre, "body": b, "exit": d.pick(["normal", "raise", "raise"]), "exc": d.pick(EXC_KINDS), "between": between}
    k = d.i(0, 9)
    if k < 5:
        src = d.pick(PROBES) if d.chance(0.3) else gen.block_doc_d(d, tabs=False, maxdepth=2, perturbed=False)
    else:
        src = gen.any_doc_d(d)
    src = src[:400]
    cfg = d.pick([C.simple("commonmark"), C.simple("js-default", typographer=True), C.simple("js-default", html=True, typographer=True)]) if d.chance(0.6) else gen.config_d(d, allow_linkify=False)
    picks = [d.i(0, 10**6) for _ in range(6)]
    return {"kind": "crash", "src": src, "cfg": cfg, "entry": d.pick(["render", "render", "parse", "renderInline"]), "exc": d.pick(EXC_KINDS), "picks": picks}


def strategy(tier: str):
    _TIER.update(budget(tier))
    return _case()


def enumerate_cases(tier: str, shard: int, nshards: int):
    """reset_rules blocks entered while a chain is narrowed to its minimum (directly on its ruler), whose body switches the
    chain's rules on and uses the instance: every combination of chain x exit path x preset (deterministic coverage of a
    shape the generated bodies reach only now and then)."""
    _TIER.update(budget(tier))
    chains = {
        "inline2": ([], ["emphasis", "strikethrough", "balance_pairs", "fragments_join"]),
        "inline": (["text"], ["emphasis", "backticks", "link", "escape", "entity", "newline"]),
        "block": (["paragraph"], ["list", "heading", "blockquote", "fence", "hr", "code"]),
        "core": (["normalize", "block", "inline", "text_join"], ["replacements", "smartquotes"]),
    }
    idx = 0
    for preset in ("commonmark", "js-default", "zero"):
        for ch, (keep, names) in chains.items():
            for exit_ in ("normal", "raise"):
                for inner in (False, True):
                    idx += 1
                    if idx % nshards != shard:
                        continue
                    body = [["enable", list(names)], ["parse", PROBES[0]]]
                    if inner:
                        body = [["block", body, exit_, "Exception"], ["parse", PROBES[1 % len(PROBES)]]]
                    yield {"kind": "reset", "cfg": C.simple(preset, typographer=True), "pre": [[ch, "enableOnly", list(keep)]], "body": body, "exit": exit_, "exc": "Exception", "between": []}


# --------------------------------------------------------------------------------------------


class Ctl:
    def __init__(self) -> None:
        self.count: dict = {}
        self.target = None
        self.exc = None
        self.fired = False

    def reset(self) -> None:
        self.count = {}
        self.fired = False

    def hit(self, key) -> None:
        c = self.count.get(key, 0) + 1
        self.count[key] = c
        if self.target is not None and self.target == (key, c) and not self.fired:
            self.fired = True
            raise self.exc


def instrument(md, ctl: Ctl) -> None:
    for chain, ruler in (("core", md.core.ruler), ("block", md.block.ruler), ("inline", md.inline.ruler), ("inline2", md.inline.ruler2)):
        for rule in list(ruler.__rules__):
            if not rule.enabled:
                continue

            def w(*a, _fn=rule.fn, _key=(chain, rule.name), **k):
                ctl.hit(_key)
                return _fn(*a, **k)

            ruler.at(rule.name, w, {"alt": list(rule.alt)})
    for name, orig in list(md.renderer.rules.items()):
        def rw(self, tokens, idx, options, env, _orig=orig, _key=("render", name)):
            ctl.hit(_key)
            return _orig(tokens, idx, options, env)

        md.add_render_rule(name, rw)

    def hl(content, lang, attrs):
        ctl.hit(("highlight", "highlight"))
        # a visible answer: whether (and with what) the callback was asked shows in every later rendering
        return "<mark>" + content.replace("&", "&amp;").replace("<", "&lt;") + "|" + lang.replace("&", "&amp;").replace("<", "&lt;") + "</mark>"

    md.options["highlight"] = hl


def snapshot(md):
    o = dict(md.options)
    return md.get_active_rules(), md.get_all_rules(), {k: (v if not callable(v) else "<callable>") for k, v in o.items()}


def probe_all(md, ctl: Ctl | None, extra: str | None = None):
    out = []
    for p in list(PROBES) + ([extra] if extra is not None else []):
        if ctl:
            ctl.reset()
        env: dict = {}
        out.append([dump(md.parse(p, env)), env])
        if ctl:
            ctl.reset()
        out.append(md.render(p))
    return out


def check_crash(case, res: Res) -> None:
    cfg = case["cfg"]
    src = case["src"]
    entry = case["entry"]
    ctl = Ctl()
    md = C.build(cfg)
    instrument(md, ctl)
    cctl = Ctl()
    control = C.build(cfg)
    instrument(control, cctl)
    expected_probe = probe_all(control, cctl, src)  # the document of the failed call is parsed again afterwards, too
    # counting pass - on an instance of its own, so that the first failure can be the very first thing the instance
    # under test ever does with this document
    counter_ctl = Ctl()
    counter = C.build(cfg)
    instrument(counter, counter_ctl)
    counter_ctl.reset()
    getattr(counter, entry)(src)
    counts = dict(counter_ctl.count)
    before = snapshot(md)
    per = _TIER["per_callback"]
    picks = case.get("picks") or [0]
    points = []
    for key in sorted(counts):
        n = counts[key]
        if n <= per:
            idxs = list(range(1, n + 1))
        else:
            if per > 8:
                step = n / per
                idxs = sorted({1, n} | {1 + int(j * step) for j in range(per)})
            else:
                idxs = sorted({1, n} | {1 + (p % n) for p in picks[: max(1, per - 2)]})
        for i in idxs:
            points.append((key, i))
    res.n = max(1, len(points))
    nt_keys = []
    kinds = EXC_KINDS
    for pi, (key, i) in enumerate(points):
        exc = make_exc(kinds[(pi + picks[0]) % len(kinds)] if case["exc"] == "Exception" else case["exc"])
        if key[0] in ("highlight", "render"):
            # renderer callbacks: every crash point on an instance that has not rendered anything yet
            ctl = Ctl()
            md = C.build(cfg)
            instrument(md, ctl)
        ctl.reset()
        ctl.target = (key, i)
        ctl.exc = exc
        where = f"{key[0]} rule {key[1]!r} invocation {i}/{counts[key]} ({type(exc).__name__}) during {entry}"
        try:
            getattr(md, entry)(src)
        except BaseException as e:  # noqa: BLE001
            if e is not exc:
                res.fail(f"wrong-exception:{key[0]}", f"{where}: caller received {type(e).__name__}: {e!r} instead of the injected object")
        else:
            if ctl.fired:
                res.fail(f"exception-swallowed:{key[0]}", f"{where}: the call returned normally")
        ctl.target = None
        if not ctl.fired:
            continue
        if i >= 2:
            nt_keys.append(f"{key}/{i}")
        after = snapshot(md)
        if after != before:
            which = ["active rules", "all rules", "options"][[a != b for a, b in zip(after, before)].index(True)]
            res.fail(f"state-changed:{key[0]}:{which}", f"{where}: {which} differ after the failed call")
            break
        got = probe_all(md, ctl, src)
        if got != expected_probe:
            j = [a != b for a, b in zip(got, expected_probe)].index(True)
            det = first_diff(got[j][0], expected_probe[j][0]) if isinstance(got[j], list) else f"{got[j]!r} != {expected_probe[j]!r}"
            res.fail(f"later-results-differ:{key[0]}", f"{where}: probe {j // 2} differs from the control instance: {det}"[:600])
            break
    res.nt_keys = nt_keys
    res.cls.append("entry:" + entry)
    res.cls.append("callbacks:" + ("<10" if len(counts) < 10 else "10-29" if len(counts) < 30 else ">=30"))
    if any(k[0] == "highlight" for k in counts):
        res.cls.append("highlight_called")


def check_reset(case, res: Res) -> None:
    cfg = case["cfg"]
    md = C.build(cfg)
    control = C.build(cfg)
    for m in (md, control):
        for chain, kind, name in case.get("pre") or []:
            ruler = m.inline.ruler2 if chain == "inline2" else m[chain].ruler
            getattr(ruler, kind)(list(name) if isinstance(name, list) else [name], True)
    between = case.get("between") or []
    guard = md.reset_rules() if between else None
    for m in (md, control):
        for kind, names in between:
            getattr(m, kind)(list(names), True)
    entry_state = snapshot(md)
    raised_exit = [False]
    if between:
        res.cls.append("reset_rules:entered-after-creation")

    def run_body(steps, depth):
        for st_ in steps:
            k = st_[0]
            if k in ("enable", "disable"):
                getattr(md, k)(list(st_[1]), True)
            elif k == "parse":
                md.render(st_[1])
            elif k == "block":
                inner_entry = md.get_active_rules()
                exc = make_exc(st_[3])
                try:
                    with md.reset_rules():
                        run_body(st_[1], depth + 1)
                        if st_[2] == "raise":
                            raise exc
                except BaseException as e:  # noqa: BLE001
                    if e is not exc:
                        raise
                    raised_exit[0] = True
                if md.get_active_rules() != inner_entry:
                    res.fail("reset_rules:nested-block-not-restored", f"depth {depth + 1} exit={st_[2]}: {md.get_active_rules()} != rules on entry {inner_entry}")

    exc = make_exc(case["exc"])
    try:
        with (guard if guard is not None else md.reset_rules()):
            run_body(case["body"], 1)
            if case["exit"] == "raise":
                raise exc
    except BaseException as e:  # noqa: BLE001
        if e is not exc:
            from ..runner import lib_frame_of

            if isinstance(e, Exception) and lib_frame_of(e) is not None:
                res.fail(f"reset_rules:unexpected-{type(e).__name__}", repr(e))
                return
            raise
        raised_exit[0] = True
    else:
        if case["exit"] == "raise":
            res.fail("reset_rules:exception-swallowed", "the body's exception did not reach the caller")
    after = snapshot(md)
    if after != entry_state:
        which = ["active rules", "all rules", "options"][[a != b for a, b in zip(after, entry_state)].index(True)]
        res.fail(f"reset_rules:not-restored:{which}", f"exit={case['exit']}: {after[0] if which == 'active rules' else after[2]} != on entry {entry_state[0] if which == 'active rules' else entry_state[2]}"[:600])
    elif probe_all(md, None) != probe_all(control, None):
        res.fail("reset_rules:later-results-differ", f"exit={case['exit']}")
    res.nt = raised_exit[0]
    res.cls.append("reset_rules:" + case["exit"])


def check(case) -> Res:
    res = Res()
    res.cls.append(case["kind"])
    if case["kind"] == "reset":
        check_reset(case, res)
    else:
        check_crash(case, res)
    return res

"""C09 - backslash-escaping / character references make any text literal in every inline context."""
from __future__ import annotations

import html.entities

from hypothesis import strategies as st

from .. import cfg as C
from .. import gen
from ..runner import Res

ID = "C09"
LEVEL = "exploration"
RULE = (
    "cases = a single-line text t (t == t.strip()) over printable ASCII with punctuation over-weighted, inner "
    "spaces/tabs, non-ASCII letters/punctuation/blanks/format characters and (backslash form) control characters, "
    "written (a) with a backslash before every ASCII punctuation character or (b) with each character spelled raw "
    "(non-punctuation only), backslash-escaped, or as decimal/hex/named reference; each spelling is placed in the "
    "seven contexts (paragraph, ATX heading, emphasis, link text, image alt, link title, table cell; plus their "
    "compositions: nested descriptions, emphasis inside link text/description/heading/cell, image and reference titles in "
    "three quoting styles, reference-form link text and alt, list item, block quote, setext heading) under two "
    "presets and the rendered HTML is compared byte for byte with the context's frame around the independently "
    "HTML-escaped t. Non-trivial = t has >= 2 characters and >= 1 ASCII punctuation character; distinct = distinct "
    "case hash."
)
ASSUMPTIONS = [
    "NUL, CR and LF are excluded from t (single-line text; NUL is replaced by U+FFFD by documented normalisation, see C17)",
    "the reference form is limited to code points that HTML character references may denote, as the property states",
    "named references are taken from the HTML5 table of Python's standard library",
]
SHRINK = {"text": ["t"], "list": ["spell"]}
NO_SHRINK = False

ASCII_PUNCT = "!\"#$%&'()*+,-./:;<=>?@[\\]^_`{|}~"
ALNUM = "abcxyzABZ019 "
NONASCII = list("éßİıǅΑяאあ漢«»¡¿§¶·‐–—‘’“”…‰€£©™←≠∑♥  　​‍‮⁠﻿­\U0001f600\U00010348́⃣")
CONTROLS = [chr(c) for c in list(range(1, 9)) + [0x0B, 0x0C] + list(range(0x0E, 0x20)) + [0x7F] + list(range(0x80, 0xA0))]

NAMED: dict[str, str] = {}
NAMED_LONG: dict[str, str] = {}
for _name, _val in html.entities.html5.items():
    if _name.endswith(";") and len(_val) == 1:
        nm = _name[:-1]
        if nm.isalnum() and nm.isascii() and 2 <= len(nm) <= 32 and nm[0].isalpha():
            if _val not in NAMED or len(nm) < len(NAMED[_val]):
                NAMED[_val] = nm
            if _val not in NAMED_LONG or len(nm) > len(NAMED_LONG[_val]):
                NAMED_LONG[_val] = nm
# characters whose longest HTML5 name is very long (boundary of every length limit in the entity scanner)
# code points on both sides of every boundary of the "may a reference denote it" table
BOUNDARY_CHARS = [chr(c) for c in (0x09, 0x0C, 0x20, 0x7E, 0xA0, 0xD7FF, 0xE000, 0xFDCF, 0xFDF0, 0xFDFA, 0xFDFF, 0xFFFD, 0x10000, 0x1FFFD, 0x20000, 0x2FFFD, 0xFFFFD, 0x10FFFD, 0xFEFF, 0xFFF0, 0x2028, 0x85)]
LONG_NAME_CHARS = [c for c, n in sorted(NAMED_LONG.items(), key=lambda kv: -len(kv[1]))[:40]]


def valid_entity_code(c: int) -> bool:
    """Code points a numeric character reference may denote (HTML5 / CommonMark)."""
    if 0xD800 <= c <= 0xDFFF or 0xFDD0 <= c <= 0xFDEF or (c & 0xFFFF) in (0xFFFF, 0xFFFE):
        return False
    if c <= 0x08 or c == 0x0B or 0x0E <= c <= 0x1F or 0x7F <= c <= 0x9F or c > 0x10FFFF:
        return False
    return True


def escape_ref(s: str) -> str:
    return s.replace("&", "&amp;").replace("<", "&lt;").replace(">", "&gt;").replace('"', "&quot;")


def budget(tier: str) -> dict:
    return {"examples": 30000 if tier == "quick" else 500000}


@st.composite
def _case(draw):
    d = gen.D(draw)
    form = d.pick(["backslash", "refs", "refs"])
    n = d.i(1, 12) if d.chance(0.9) else d.i(20, 70)
    long_t = d.chance(0.004)  # texts beyond 999 characters (length limits that apply to labels must not apply to text)
    chars = []
    for _ in range(n):
        k = d.i(0, 99)
        if k < 38:
            chars.append(d.pick(ASCII_PUNCT))
        elif k < 62:
            chars.append(d.pick(ALNUM))
        elif k < 70:
            chars.append(d.pick([" ", "\t", "  "]))
        elif k < 84:
            chars.append(d.pick(NONASCII))
        elif k < 87:
            chars.append(d.pick(BOUNDARY_CHARS))
        elif k < 89:
            chars.append(d.pick(LONG_NAME_CHARS))
        elif k < 90:
            chars.append(d.pick(BOUNDARY_CHARS))
        elif k < 95:
            chars.append(d.unichar())
        elif form == "backslash":
            chars.append(d.pick(CONTROLS))
        else:
            chars.append(d.pick(ASCII_PUNCT))
    t = "".join(chars).replace("\0", "").replace("\n", "").replace("\r", "").strip()
    if form == "refs":
        t = "".join(c for c in t if valid_entity_code(ord(c)) or c == "\t")
        t = t.strip()
    if not t:
        t = d.pick(ASCII_PUNCT)
    if long_t:
        t = (t + " ") * (d.pick([500, 999, 1000, 1001, 1100, 2000]) // (len(t) + 1) + 1)
        t = t.strip()
    spell = [d.i(0, 6) for _ in range(min(len(t), 80))]
    edge = [d.pick(["", "", " ", "\t", "  ", " "]), d.pick(["", "", " ", "\t", " "])]
    return {"t": t, "form": form, "spell": spell, "edge": edge}


def strategy(tier: str):
    return _case()


def spell_text(t: str, form: str, spell: list) -> str:
    out = []
    for i, ch in enumerate(t):
        if form == "backslash":
            out.append("\\" + ch if ch in ASCII_PUNCT else ch)
            continue
        k = spell[i % len(spell)] if spell else 0
        c = ord(ch)
        can_ref = valid_entity_code(c)
        if k == 0 or not can_ref:
            if ch in ASCII_PUNCT:
                out.append("\\" + ch)
            else:
                out.append(ch)
        elif k == 1:
            out.append("&#%d;" % c)
        elif k == 2:
            out.append("&#x%x;" % c)
        elif k == 3:
            out.append("&#X%X;" % c)
        elif k == 4 and ch in NAMED:
            out.append("&" + NAMED[ch] + ";")
        elif k == 6 and ch in NAMED_LONG:
            out.append("&" + NAMED_LONG[ch] + ";")
        elif k == 5 and c < 0x10000:
            out.append("&#x%06X;" % c if c > 0xFFFF else "&#%07d;" % c)
        else:
            out.append("\\" + ch if ch in ASCII_PUNCT else "&#%d;" % c)
    return "".join(out)


CFGS = {
    "cm": C.simple("commonmark", enable=["table", "strikethrough"], typographer=False),
    "js": C.simple("js-default", typographer=False),
}
_MDS: dict = {}


def _mds():
    if not _MDS:
        for k, c in CFGS.items():
            _MDS[k] = C.build(c)
    return _MDS


def check(case) -> Res:
    res = Res()
    t = case["t"]
    if not t or t != t.strip() or any(c in t for c in "\0\n\r"):
        res.cls.append("outside-domain")
        return res
    form = case["form"]
    if form == "refs" and any(not (valid_entity_code(ord(c))) for c in t):
        res.cls.append("outside-domain")
        return res
    s = spell_text(t, form, case.get("spell") or [0])
    T = escape_ref(t)
    e0, e1 = (case.get("edge") or ["", ""])[:2]
    for name, md in _mds().items():
        void = " /" if md.options["xhtmlOut"] else ""
        contexts = {
            "paragraph": (s + "\n", f"<p>{T}</p>\n"),
            "heading": ("# " + s + "\n", f"<h1>{T}</h1>\n"),
            "emphasis": ("*" + s + "*\n", f"<p><em>{T}</em></p>\n"),
            "strong": ("**" + s + "**\n", f"<p><strong>{T}</strong></p>\n"),
            "strike": ("~~" + s + "~~\n", f"<p><s>{T}</s></p>\n"),
            "linktext": ("[" + s + "](u)\n", f'<p><a href="u">{T}</a></p>\n'),
            "imagealt": ("![" + s + "](u)\n", f'<p><img src="u" alt="{T}"{void}></p>\n'),
            "title": ('[x](u "' + e0 + s + e1 + '")\n', f'<p><a href="u" title="{escape_ref(e0 + t + e1)}">x</a></p>\n'),
            "cell": ("| " + s + " |\n|-|\n", f"<table>\n<thead>\n<tr>\n<th>{T}</th>\n</tr>\n</thead>\n</table>\n"),
            "cell-open": ("| " + s + "\n| -\n", f"<table>\n<thead>\n<tr>\n<th>{T}</th>\n</tr>\n</thead>\n</table>\n"),
            "cell-body": ("| h |\n|-|\n| " + s + " |\n", f"<table>\n<thead>\n<tr>\n<th>h</th>\n</tr>\n</thead>\n<tbody>\n<tr>\n<td>{T}</td>\n</tr>\n</tbody>\n</table>\n"),
            "cell-body-open": ("| h\n| -\n| " + s + "\n", f"<table>\n<thead>\n<tr>\n<th>h</th>\n</tr>\n</thead>\n<tbody>\n<tr>\n<td>{T}</td>\n</tr>\n</tbody>\n</table>\n"),
            "cell-first-of-2": (s + " | x\n-|-\n", f"<table>\n<thead>\n<tr>\n<th>{T}</th>\n<th>x</th>\n</tr>\n</thead>\n</table>\n"),
            "cell-last-of-2": ("x | " + s + "\n-|-\n", f"<table>\n<thead>\n<tr>\n<th>x</th>\n<th>{T}</th>\n</tr>\n</thead>\n</table>\n"),
        }
        # the same contexts composed with each other (an image description inside an image description or a link,
        # emphasis inside link text or a description, titles of images and of reference definitions in all three
        # quoting styles, paragraphs inside containers, setext headings)
        contexts.update({
            "alt-nested": ("![![" + s + "](v)](u)\n", f'<p><img src="u" alt="{T}"{void}></p>\n'),
            "alt-nested-3": ("![![![" + s + "](w)](v)](u)\n", f'<p><img src="u" alt="{T}"{void}></p>\n'),
            "alt-in-linktext": ("[![" + s + "](v)](u)\n", f'<p><a href="u"><img src="v" alt="{T}"{void}></a></p>\n'),
            "alt-emphasis": ("![*" + s + "*](u)\n", f'<p><img src="u" alt="{T}"{void}></p>\n'),
            "alt-linktext": ("![[" + s + "](v)](u)\n", f'<p><img src="u" alt="{T}"{void}></p>\n'),
            "linktext-emphasis": ("[*" + s + "*](u)\n", f'<p><a href="u"><em>{T}</em></a></p>\n'),
            "heading-emphasis": ("# *" + s + "*\n", f"<h1><em>{T}</em></h1>\n"),
            "setext": (s + "\n===\n", f"<h1>{T}</h1>\n"),
            "image-title": ('![x](u "' + e0 + s + e1 + '")\n', f'<p><img src="u" alt="x" title="{escape_ref(e0 + t + e1)}"{void}></p>\n'),
            "title-single": ("[x](u '" + e0 + s + e1 + "')\n", f'<p><a href="u" title="{escape_ref(e0 + t + e1)}">x</a></p>\n'),
            "title-paren": ("[x](u (" + e0 + s + e1 + "))\n", f'<p><a href="u" title="{escape_ref(e0 + t + e1)}">x</a></p>\n'),
            "ref-title": ('[x][r]\n\n[r]: u "' + e0 + s + e1 + '"\n', f'<p><a href="u" title="{escape_ref(e0 + t + e1)}">x</a></p>\n'),
            "ref-linktext": ("[" + s + "][r]\n\n[r]: u\n", f'<p><a href="u">{T}</a></p>\n'),
            "ref-alt": ("![" + s + "][r]\n\n[r]: u\n", f'<p><img src="u" alt="{T}"{void}></p>\n'),
            "listitem": ("- " + s + "\n", f"<ul>\n<li>{T}</li>\n</ul>\n"),
            "quote": ("> " + s + "\n", f"<blockquote>\n<p>{T}</p>\n</blockquote>\n"),
            "cell-emphasis": ("| *" + s + "* |\n|-|\n", f"<table>\n<thead>\n<tr>\n<th><em>{T}</em></th>\n</tr>\n</thead>\n</table>\n"),
        })
        for cname, (doc, expected) in contexts.items():
            out = md.render(doc)
            if out != expected:
                res.fail(f"{cname}:{form}", f"preset {name}: render({doc!r}) = {out!r}, expected {expected!r}")
    res.nt = len(t) >= 2 and any(c in ASCII_PUNCT for c in t)
    res.cls.append("form:" + form)
    if any(ord(c) > 127 for c in t):
        res.cls.append("non_ascii")
    if any(c in CONTROLS for c in t):
        res.cls.append("control_char")
    if " " in t or "\t" in t:
        res.cls.append("inner_blank")
    return res

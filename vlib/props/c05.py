"""C05 - emitted link/image URLs are normalised and never carry a dangerous scheme."""
from __future__ import annotations

import html
import re

from hypothesis import strategies as st

from .. import cfg as C
from .. import gen
from ..runner import Res
from ..util import walk_tokens

ID = "C05"
LEVEL = "exploration"
RULE = (
    "cases = a semantic URL (scheme x tail, incl. near misses and data:image types) spelled character by character "
    "(raw, swapped case, decimal/hex/named reference, backslash escape, percent escape) with optional control/blank "
    "prefixes and suffixes, placed in each link producer (inline link, image, reference definition on the same and "
    "next line, autolink, e-mail autolink, linkifier double; bare and <...> destinations), html on and off; plus "
    "general documents. Oracle: independent URL-safety grammar and browser-style scheme reading of every href/src on "
    "tokens and in HTML; rejected constructs must render exactly as with the link rules disabled. Non-trivial = the "
    "semantic URL has a blacklisted scheme with >=1 non-raw character in its spelling, or is a data:image URL; "
    "distinct = distinct case hash."
)
ASSUMPTIONS = [
    "browser reading of a URL = strip leading/trailing C0 controls and space, delete TAB/CR/LF, compare case-insensitively (WHATWG URL parser preprocessing)",
    "test-double linkifier accepts any 'scheme:' so that the library's validator is what is tested",
]
SHRINK = {"text": ["src"], "list": ["cfg.enable", "cfg.disable"], "keys": ["cfg.options"]}

SCHEMES = ["javascript", "vbscript", "file", "data", "http", "mailto", "x-javascript", "javascript2", "datas", "jav", "https", "livescript"]
TAILS = [
    ":alert(1)", "://x/y", ":text/html,<script>alert(1)</script>", ":image/png;base64,AAAA", ":image/svg+xml;base64,AAAA",
    ":image/gif,AAAA", ":IMAGE/PNG;x", ":", ":x y", ":image/jpeg;x", ":image/webp;", ":image/gif;alert(1)", ":image/png",
    ":image/pngx;", ":/etc/passwd", ":a@b.c", "", "//x", ":%0aalert(1)", ":image/gif;base64,R0lGODlh",
    # code points the URL-encoding dependency cannot encode (a high surrogate followed by a low one raises there; lone ones
    # become %EF%BF%BD): whatever is emitted must still be URL-safe ASCII
    ":alert(1)//\ud800\udc00", "://x/\ud800\udc00", ":\udc00x", ":x\ud83d",
]
# long destinations (size thresholds in fast paths), with characters that need encoding at the far end
LONG_TAILS = [":image/png;base64," + "A" * 4100 + "\u00e9\"|^`{}", "://x/" + "a" * 5000 + "\u00e9\"<>", ":image/png;base64," + "A" * 4096 + "|"]
NAMED = {
    ":": "&colon;", "\t": "&Tab;", "\n": "&NewLine;", "/": "&sol;", "(": "&lpar;", ")": "&rpar;", ";": "&semi;", ",": "&comma;",
    "+": "&plus;", "=": "&equals;", "<": "&lt;", ">": "&gt;", "&": "&amp;", " ": "&#32;", " ": "&nbsp;",
}
PREFIXES = ["", "", "", " ", "&#1;", "&#x20;", "&Tab;", "&NewLine;", "&#xA0;", "\x01", "&#12;", "%20", "&#8203;", "&nbsp;", " ", "​", "&#x1f;", "%09", "&#9;", "&#10;", "&#13;", "\\\t", "&#0;", "﻿", " "]
TEMPLATES = [
    ("link", "[a]({u})"), ("image", "![a]({u})"), ("link", "[a]({u} \"t\")"), ("ref", "[a][r]\n\n[r]: {u}\n"), ("ref", "![a][r]\n\n[r]: {u} \"t\"\n"),
    ("auto", "<{u}>"), ("refnl", "[a]\n\n[a]:\n  {u}\n"), ("link", "[a](  {u}  )"), ("image", "![![x]({u})]({u})"), ("ref", "> [r]: {u}\n\n[r]\n"),
    ("linkify", "see {u} now"), ("link", "- [a]({u})\n"), ("link", "| [a]({u}) |\n|-|\n"),
]
BADRE = re.compile(r"^(javascript|vbscript|file|data):")
GOODRE = re.compile(r"^data:image/(gif|png|jpeg|webp);")
SAFE = re.compile(r"^(?:[A-Za-z0-9\-._~:/?#\[\]@!$&'()*+,;=]|%[0-9A-Fa-f]{2})*$")
_C0_SPACE = "".join(chr(i) for i in range(33))
EMAIL_LOCALS = ["a", "a.b", "a{b}", "a|b", "100%zz", "a^b", "a`b", "a+b", "a'b", "a&b", "a=b", "a#b", "a!b", "x~y", "a$b", "a*b", "a/b", "a?b", "_"]


def browser_bad(u: str) -> bool:
    v = u.strip(_C0_SPACE)
    v = v.replace("\t", "").replace("\n", "").replace("\r", "").lower()
    return bool(BADRE.match(v)) and not GOODRE.match(v)


def budget(tier: str) -> dict:
    return {"examples": 60000 if tier == "quick" else 1000000}


def spell(d: gen.D, s: str, form: str) -> tuple[str, bool]:
    if len(s) > 200:
        # long destinations: only both ends are respelled (one generated example has a bounded number of choices);
        # the middle of the long tails needs no escaping in either form
        a, na = spell(d, s[:40], form)
        b, nb = spell(d, s[-20:], form)
        return a + s[40:-20] + b, na or nb
    out = []
    nonraw = False
    for ch in s:
        r = d.i(0, 99)
        if r < 3:
            # double encoding: the reference itself is written with an escaped/encoded ampersand, so one level of
            # decoding yields the literal text of a reference - it must stay literal (and escaped) in the output
            out.append(d.pick(["\\&#%d;", "&amp;#%d;", "&#38;#%d;", "\\&#x%x;", "&amp;#x%X;"]) % ord(ch)); nonraw = True
        elif r < 10:
            out.append("&#%d;" % ord(ch)); nonraw = True
        elif r < 20:
            out.append(("&#x%X;" if d.chance(0.5) else "&#X%x;") % ord(ch)); nonraw = True
        elif r < 27 and ch in NAMED:
            out.append(NAMED[ch]); nonraw = True
        elif r < 35 and ch in "!\"#$%&'()*+,-./:;<=>?@[\\]^_`{|}~":
            out.append("\\" + ch); nonraw = True
        elif r < 42 and ch.isalpha():
            out.append(ch.swapcase()); nonraw = True
        elif r < 48:
            out.append("%%%02X" % ord(ch) if ord(ch) < 256 else ch); nonraw = True
        else:
            if form == "bare" and ch in " \t\n<>()\\":
                out.append("\\" + ch if ch in "()\\<>" else "%20")
            elif form == "angle" and ch in "<>\\\n":
                out.append("\\" + ch if ch != "\n" else "&#10;")
            else:
                out.append(ch)
    return "".join(out), nonraw


@st.composite
def _case(draw):
    d = gen.D(draw)
    k = d.i(0, 10)
    cfg = d.pick([C.simple("commonmark"), C.simple("js-default"), C.simple("commonmark", html=False), C.simple("js-default", html=True), C.simple("js-default", linkify=True), C.simple("commonmark", linkify=True, typographer=True)])
    cfg = gen.maybe_late(d, cfg)
    if d.chance(0.15):
        cfg = gen.config_d(d)
    if k < 7 and d.chance(0.012):
        # a long destination written plainly (size thresholds of fast paths), ending in characters that need encoding
        n = d.pick([4095, 4096, 4097, 4100, 8192, 16384, 16385, 65536])
        u = d.pick(["data:image/png;base64,", "DATA:image/gif;base64,", "data:image/webp;base64,", "http://x.y/", "data:text/html;base64,", "javascript:"]) + d.pick(["A", "A", "QUJD", "a/"]) * n
        u = u[: len(u) if d.chance(0.5) else n + 30] + d.pick(["\u00e9", "\"", "|", "^`", "{}", "\u00e9\"|", "%zz", "\u200b"])
        tpl = d.pick(["![a]({u})", "![a]({u})", "[a]({u})", "![a]({u} \"t\")", "![a](<{u} >)", "[r]: {u}\n\n![x][r]\n", "<{u}>", "![![b]({u})](/v)"])
        return {"kind": "template", "src": tpl.replace("{u}", u), "cfg": cfg, "sem": u[:40], "nonraw": False, "n": 1, "prior": None}
    if k < 7:
        # one to three constructs in one document (one instance): validators must not carry a verdict
        # from one URL to the next
        parts = []
        sems = []
        anynonraw = False
        scheme = None
        for j in range(d.weighted([(6, 1), (3, 2), (1, 3)])):
            kind, tpl = d.pick(TEMPLATES)
            scheme = scheme if (scheme and d.chance(0.4)) else d.pick(SCHEMES)
            long_tail = d.chance(0.01)
            if long_tail and d.chance(0.5):
                scheme = "data"
            sem = scheme + (d.pick(LONG_TAILS) if long_tail else d.pick(TAILS))
            form = d.pick(["bare", "bare", "angle"]) if kind not in ("auto", "linkify") else "auto"
            body, nonraw = spell(d, sem, form)
            pre = d.pick(PREFIXES) if not (long_tail and d.chance(0.7)) else ""
            suf = d.pick(PREFIXES) if d.chance(0.2) else ""
            raw = pre + body + suf
            if form == "angle":
                raw = "<" + raw + ">"
            part = tpl.replace("{u}", raw)
            if j and d.chance(0.65):  # otherwise the later definitions repeat the labels of the earlier ones
                part = part.replace("[r]", f"[r{j}]").replace("[a]:", f"[a{j}]:").replace("[a]\n", f"[a{j}]\n")
            parts.append(part)
            sems.append(sem)
            anynonraw |= bool(nonraw or pre or suf)
            if kind == "linkify" and not cfg["linkify"]:
                cfg = C.simple("js-default", linkify=True)
        src = "\n\n".join(parts)
        sem = next((x for x in sems if browser_bad(x)), sems[0])
        return {"kind": "template", "src": src, "cfg": cfg, "sem": sem, "nonraw": anynonraw, "n": len(parts), "prior": d.pick([None, None, None, "validate", "both"])}
    if k == 7 and d.chance(0.5):
        # a rejected inline construct directly followed by something that does resolve: the rejected one must still be
        # there as literal text (not swallowed by whatever follows it)
        scheme = d.pick([x for x in SCHEMES if browser_bad(x + ":x")])
        sem = scheme + d.pick([tl for tl in TAILS if browser_bad(scheme + tl)])
        form = d.pick(["bare", "bare", "angle"])
        body, _nonraw = spell(d, sem, form)
        raw = "<" + body + ">" if form == "angle" else body
        construct = d.pick(["[b]({u})", "![b]({u})", "[b]({u} \"t\")", "[b]( {u} )", "[b]({u} 't')"]).replace("{u}", raw)
        follow = d.pick(["[r]", "[r][r]", "[][r]", "[x][r]", "(v)", "<http://ok.example/>", "![i](/ok)", "[c](/ok)", "[r] [r]", "[R]"])
        cfg2 = d.pick([C.simple("commonmark"), C.simple("js-default"), C.simple("commonmark", html=False)])
        return {"kind": "rejected-followed", "src": d.pick(["", "x "]) + construct + follow + d.pick(["", " y"]) + "\n\n[r]: /ok\n", "construct": construct, "cfg": cfg2, "sem": sem, "nonraw": True}
    if k == 7:
        src = "<" + d.pick(EMAIL_LOCALS) + d.pick(["", d.pick(EMAIL_LOCALS)]) + "@" + d.pick(["example.com", "b.c", "xn--n3h.net", "a-b.c", "B.C"]) + ">"
        return {"kind": "email", "src": src, "cfg": cfg, "sem": "mailto:", "nonraw": False}
    if k == 10:
        # several URL-ish words in one text node, with the linkifier on: accepted and rejected matches side by side
        words = []
        for _ in range(d.i(2, 5)):
            words.append(d.pick(["www.ok.example", "http://a.b/c", "javascript:alert(1)", "vbscript:x", "data:text/html,x", "file:///etc", "mailto:a@b.c", "a@b.c", "ftp://f.g", "JaVaScRiPt:x", "data:image/png;base64,AA", "x"]))
            words.append(d.pick(["and", "or", "see", "there", "*e*", "(", ")."]))
        return {"kind": "linkify-text", "src": " ".join(words), "cfg": C.simple(d.pick(["js-default", "commonmark"]), linkify=True), "sem": "", "nonraw": False}
    if k == 8:
        # validator/normaliser called directly
        sem = d.pick(PREFIXES[:3] + ["\x01", " ", "\t", "\n", " ", "\x00", "\x1f", " ", "﻿"]) + d.pick(SCHEMES) + d.pick(TAILS)
        if d.chance(0.5):
            i = d.i(0, len(sem))
            sem = sem[:i] + d.pick(["\t", "\n", "\r", " ", "\x00", "%", "İ", "ſ", "K"]) + sem[i:]
        sem = "".join(c.swapcase() if d.chance(0.2) else c for c in sem)
        return {"kind": "direct", "src": sem, "cfg": cfg, "sem": sem, "nonraw": True}
    return {"kind": "doc", "src": gen.any_doc_d(d), "cfg": cfg, "sem": "", "nonraw": False}


def strategy(tier: str):
    return _case()


def urls(tokens):
    for t in walk_tokens(tokens):
        if t.type == "link_open":
            yield "href", t.attrs.get("href")
        elif t.type == "image":
            yield "src", t.attrs.get("src")


def check(case) -> Res:
    res = Res()
    cfg = case["cfg"]
    md = C.build(cfg)
    src = case["src"]
    kind = case["kind"]
    res.cls.append(kind)
    if kind == "direct":
        n = md.normalizeLink(src)
        ok = md.validateLink(n)
        if not isinstance(n, str):
            res.fail("normalizeLink-not-str", repr(n))
            return res
        if not SAFE.match(n):
            res.fail("direct:normalizeLink-unsafe-char", f"normalizeLink({src!r}) = {n!r}")
        if ok and browser_bad(n):
            res.fail("direct:validateLink-accepts-dangerous", f"validateLink(normalizeLink({src!r}) = {n!r}) is True")
        res.nt = browser_bad(src) or src.lower().lstrip(_C0_SPACE).startswith("data:image")
        res.cls.append("accepted" if ok else "rejected")
        return res
    if case.get("prior"):
        # another instance with permissive hooks (trusted content) handled the same document before: what a stock
        # instance emits afterwards must not depend on that
        perm = C.build(cfg)
        perm.validateLink = lambda url: True  # type: ignore[method-assign]
        if case["prior"] == "both":
            perm.normalizeLink = lambda url: url  # type: ignore[method-assign]
        try:
            perm.render(src)
        except Exception:  # noqa: BLE001
            pass
        res.cls.append("prior-permissive-instance")
    env: dict = {}
    toks = md.parse(src, env)
    found = 0
    for attr, u in urls(toks):
        found += 1
        if not isinstance(u, str):
            res.fail(f"token:{attr}-not-str", repr(u))
            continue
        if not SAFE.match(u):
            res.fail(f"token:{attr}-not-url-safe-ascii", f"{attr}={u!r}")
        if browser_bad(u):
            res.fail(f"token:{attr}-dangerous-scheme", f"{attr}={u!r}")
    out = md.render(src)
    for m in re.finditer(r'(?:href|src)="([^"]*)"', out):
        u = html.unescape(m.group(1))
        if browser_bad(u):
            res.fail("html:dangerous-scheme", f"{m.group(0)!r}")
        if not SAFE.match(u) and not md.options.get("html"):
            res.fail("html:not-url-safe-ascii", f"{m.group(0)!r}")
    res.cls.append("link_emitted" if found else "no_link")
    # definitions recorded in env are parser output too: a recorded destination obeys the same rules
    for where in ("references", "duplicate_refs"):
        recs = env.get(where) or {}
        for r in (recs.values() if isinstance(recs, dict) else recs):
            u = r.get("href") if isinstance(r, dict) else None
            if isinstance(u, str) and (browser_bad(u) or not SAFE.match(u)):
                res.fail(f"env:{where}:unvalidated-destination", f"env[{where!r}] holds href {u!r}")
    if kind == "linkify-text":
        # the linkifier only wraps text into links: with the <a> tags removed the text is what it is without linkify
        off = C.build(dict(cfg, linkify=False))
        off.disable(["autolink"], True)
        on2 = C.build(cfg)
        on2.disable(["autolink"], True)
        strip = lambda h: re.sub(r"</?a(?: [^<>]*)?>", "", h)  # noqa: E731
        a, b = strip(on2.render(src)), strip(off.render(src))
        if a != b and "%" not in src:
            res.fail("linkify:text-not-preserved", f"with linkify {a!r}, without {b!r}")
        res.nt = True
    if kind in ("template", "email") and not found and not env.get("references"):
        # rejected (or not a link at all): must be left as literal text - exactly what one gets without the link rules
        off = C.build(cfg)
        off.disable(["link", "image", "autolink", "linkify", "reference"], True)
        if cfg.get("linkify"):
            off.options["linkify"] = False
        out_off = off.render(src)
        if out != out_off:
            res.fail("rejected-construct-not-literal", f"render={out!r} but with the link rules off={out_off!r}")
    if kind == "rejected-followed":
        off = C.build(cfg)
        off.disable(["link", "image", "autolink", "linkify", "reference"], True)
        strip = lambda h: html.unescape(re.sub(r"<[^<>]*>", "", h)).strip()  # noqa: E731
        alone = md.parse(case["construct"])
        if not any(True for _ in urls(alone)):
            lit = strip(off.render(case["construct"]))
            got = strip(out)
            res.cls.append("rejected-followed:checked")
            if lit not in got:
                res.fail("rejected-construct-dropped", f"the rejected construct renders {lit!r} on its own, but the text of render({src!r}) is {got!r}")
    sem = case.get("sem", "")
    res.nt = (browser_bad(sem) and case.get("nonraw", False)) or sem.lower().startswith("data:image") or (kind == "doc" and found > 0) or kind == "email"
    return res

"""C16 - reference definitions act through env: seeding env equals prepending them."""
from __future__ import annotations

import copy
import re

from hypothesis import strategies as st

from .. import cfg as C
from .. import gen
from ..runner import Res
from ..util import dump, first_diff, walk_tokens

ID = "C16"
LEVEL = "exploration"
RULE = (
    "cases of four kinds: (1) a definition block R (1-4 definitions; labels over ASCII/non-ASCII with case variants and "
    "inner blank runs spelled space/tab/newline, duplicates of labels used or defined in D, destinations and titles "
    "over a URL-ish/title-ish alphabet, multi-line) and a document D (reference links/images in all three forms, own "
    "definitions, arbitrary blocks): render(D, env seeded by parsing R) == render(R + blank line + D), references "
    "and duplicates equal modulo maps, seeding twice changes nothing but |R| more duplicate entries; (2) constructed "
    "documents where the harness knows the line span of every definition it wrote: each is recorded exactly once "
    "with that span, first definition of a label wins; (3) a label variant with the same case fold and the same "
    "blank-collapsed form resolves to the definition; (4) a semantic (text, destination, title) triple spelled once: "
    "if the reference form resolves, the inline form gives identical children and HTML, for links and images. "
    "Non-trivial = (1) D uses a label defined in R with another spelling or defines a duplicate, (2) >= 2 definitions "
    "with a duplicate, (3) variant differs from the defined label, (4) the reference form resolves; distinct = case hash."
)
ASSUMPTIONS = [
    "label matching is asserted in one direction only (equal case fold + equal blank-collapsed form => resolves); over-matching such as dotless i is upstream's documented normalisation and not asserted",
    "clause (4): the opposite asymmetry (inline form is a link, reference form is not) is counted in evidence, not flagged",
]
SHRINK = {"text": ["R", "D", "src", "text", "dest", "title", "label", "variant"], "list": ["blocks"]}

LABELS = ["a", "r", "foo", "Foo Bar", "ÄÖ ü", "ß", "ẞ", "ΑΓΩ", "x  y z", "q\\]", "i", "ǅ", "Σας", "a1", "long label here", "É", "ﬁ", "K"]
DESTS = ["/u", "<a b>", "http://x.y/?q=1&r=2", "u(v)w", "\\(x", "&amp;x", "javascript:x", "/ü", "#f", "<>", "/a*b*", "<u\\>v>", "mailto:a@b.c", "/%20", "u\\)"]
TITLES = ["", "", '"a&#10;b"', "'x&NewLine;y'", '"&#xA;"', '"t"', "'t u'", "(p)", '"a \\" b"', '"&quot;e"', '"multi\nline"', "'a\nb c'", '"*e*"', "(a \\) b)"]
SAFE_LABELS = ["a", "b", "foo", "Foo Bar", "ÄÖ", "x y", "r1", "r2", "ß"]
SAFE_DESTS = ["/u", "<a b>", "http://x.y/", "/v", "#f"]
SAFE_TITLES = ["", ' "a&#10;b"', "\t'x&NewLine;y'", '\t"t"', ' "t"', " 'u v'", " (p)", '\n"next line"', '\n  "multi\nline title"']
INL = ["a", "b c", "*e*", "**s**", "`c`", "\\[", "\\]", "&amp;", "x_y", "<b>", "![i](s)", "é"]


def budget(tier: str) -> dict:
    return {"examples": 30000 if tier == "quick" else 500000}


def variant(d: gen.D, lab: str) -> str:
    out = []
    for ch in lab:
        k = d.i(0, 2)
        out.append(ch.upper() if k == 0 else ch.lower() if k == 1 else ch)
    s = "".join(out)
    s = re.sub(r" +", lambda m: d.pick([" ", "  ", "\t", " \n ", "\n", " \t "]), s)
    return s


def gen_defs(d: gen.D, labels=None) -> str:
    n = d.i(1, 4)
    out = ""
    for _ in range(n):
        lab = variant(d, d.pick(labels or LABELS))
        dest = d.pick(DESTS)
        t = d.pick(TITLES)
        sep = d.pick([" ", "\n", "  ", "\n   ", "\t"])
        out += d.pick(["", "", " ", "   "]) + "[" + lab + "]:" + sep + dest + ((d.pick([" ", "\n", "  ", "\t", " \t"]) + t) if t else "") + "\n"
        if d.chance(0.2):
            out += "\n"
    return out


def gen_D(d: gen.D) -> str:
    parts = []
    for _ in range(d.i(1, 4)):
        r = d.i(0, 9)
        if r < 5:
            lab = variant(d, d.pick(LABELS))
            parts.append(d.pick(["[%s]", "[x][%s]", "[%s][]", "![%s]", "![y][%s]", "*[%s]*", "[*e* `c`][%s]", "> [%s]", "- [%s]"]) % lab + " " + d.pick(INL))
        elif r < 7:
            parts.append(gen_defs(d).rstrip("\n"))
        else:
            parts.append(gen.block_doc_d(d, tabs=False, maxdepth=2, perturbed=False).rstrip("\n"))
    doc = "\n\n".join(parts) + "\n"
    if d.chance(0.04):
        # an invisible format character as the first character of D: in the one-go form it is in the middle of the input
        doc = d.pick(gen.FORMAT_PREFIXES) + doc
    return doc


@st.composite
def _case(draw):
    d = gen.D(draw)
    kind = d.weighted([(4, "seed"), (2, "book"), (2, "label"), (3, "inline")])
    cfg = gen.maybe_late(d, d.pick([C.simple("commonmark"), C.simple("js-default"), C.simple("commonmark", inline_definitions=True, store_labels=True), C.simple("js-default", html=True), C.simple("commonmark", disable=["code"]), C.simple("js-default", disable=["code", "table"])]))
    if kind == "inline" and d.chance(0.25):
        # any rule subset that keeps the constructs the property is about
        cfg = gen.config_d(d, allow_linkify=False)
        cfg["disable"] = [r for r in cfg["disable"] if r not in ("link", "image", "reference", "escape", "entity")]
        if cfg["preset"] == "zero":
            cfg["enable"] = sorted(set(cfg["enable"]) | {"link", "image", "reference", "escape", "entity"})
    if kind == "seed":
        return {"kind": kind, "cfg": cfg, "R": gen_defs(d), "D": gen_D(d), "envtype": d.pick(["dict", "dict", "dict", "UserDict", "ChainMap", "OrderedDict", "custom"])}
    if kind == "book":
        blocks = []
        for _ in range(d.i(1, 6)):
            if d.chance(0.7):
                lab = d.pick(SAFE_LABELS)
                if d.chance(0.4):
                    lab = "".join(c.upper() if d.chance(0.5) else c.lower() for c in lab)
                blocks.append(["def", "[" + lab + "]:" + d.pick([" ", " ", "\t", "  ", " \t"]) + d.pick(SAFE_DESTS) + d.pick(SAFE_TITLES)])
            else:
                blocks.append(["other", d.pick(["para text", "# h", "> q", "- item", "```\ncode\n```", "***", "p1\np2", "[a] [b][foo] ![x][r1]"])])
        wrap = d.pick(["", "", "> ", "- "])
        return {"kind": kind, "cfg": cfg, "blocks": blocks, "wrap": wrap, "gap": d.i(1, 2)}
    if kind == "label":
        lab = d.pick(LABELS + [gen.word(d) + " " + gen.word(d)])
        return {"kind": kind, "cfg": cfg, "label": lab, "variant": variant(d, lab), "form": d.pick(["[%s]", "[x][%s]", "[%s][]", "![%s]", "![y][%s]"]), "seeded": d.chance(0.4)}
    text = "".join(d.pick(INL) + d.pick(["", " "]) for _ in range(d.i(1, 4))).strip() or "t"
    if d.chance(0.04):
        # length boundaries (CommonMark limits a label - not a link text - to 999 characters)
        text = ("x " * 700)[: d.pick([998, 999, 1000, 1001, 1400])].strip()
    dk = d.i(0, 3)
    core = "".join(d.pick(["a", "/", "b.c", "?q=1", "&amp;", "\\(", "\\)", "(x)", "%20", "ü", "*", "_", "#f", "\\\\", "&#35;", "'", '"']) for _ in range(d.i(1, 5)))
    if dk == 0:
        dest = "<" + core.replace("<", "").replace(">", "") + d.pick(["", " y", "\\>", "\\<"]) + ">"
    else:
        dest = core
    tk = d.i(0, 4)
    tcore = "".join(d.pick(["t", " ", "u", "&quot;", "\\\"", "\\'", "\\(", "\\)", "*e*", "é", "&amp;", "<b>", "\\\\"]) for _ in range(d.i(1, 6))).strip() or "t"
    if d.chance(0.25):
        # continuation lines of a title: plain text, or lines that look like the start of another block (whatever they do
        # to the paragraph they do to the definition as well; a setext underline '===' is left out - there the two
        # grammars differ by design of the rule order, see DESIGN.md)
        cont = d.pick(["line2 " + tcore, "line2 " + tcore, "-", "- ", "- x", "+", "*", "    # b", "     - b", "    > b", "    ```", "2. x", "1. x", "1.", "> q", "```", "***", "# h", "    code", "<div>", "---", "\tq", "| a |", "[z]: /w"])
        tcore = tcore + "\n" + cont + d.pick(["", "\nz"])
    if tk == 0:
        title = ""
    elif tk in (1, 2):
        title = '"' + tcore.replace('"', '\\"').replace('\\\\"', '\\"') + '"'
    elif tk == 3:
        title = "'" + tcore.replace("'", "\\'").replace("\\\\'", "\\'") + "'"
    else:
        title = "(" + tcore + ")"
    return {"kind": kind, "cfg": cfg, "text": text, "dest": dest, "title": title, "image": d.chance(0.4), "sep": d.pick([" ", "  ", "\n", "\t", " \t "]) if title else "", "sep0": d.pick([" ", " ", "\t", "  ", "\n", ""])}


def strategy(tier: str):
    return _case()


def _nomap(env):
    refs = {k: {kk: vv for kk, vv in v.items() if kk != "map"} for k, v in env.get("references", {}).items()}
    dups = [{kk: vv for kk, vv in v.items() if kk != "map"} for v in env.get("duplicate_refs", [])]
    return refs, dups


def _new_env(kind: str):
    import collections

    if kind == "UserDict":
        return collections.UserDict()
    if kind == "ChainMap":
        return collections.ChainMap({})
    if kind == "OrderedDict":
        return collections.OrderedDict()
    if kind == "custom":
        return _Env()
    return {}


class _Env(__import__("collections").abc.MutableMapping):
    """A minimal caller-made mapping."""

    def __init__(self):
        self._d = {}

    def __getitem__(self, k):
        return self._d[k]

    def __setitem__(self, k, v):
        self._d[k] = v

    def __delitem__(self, k):
        del self._d[k]

    def __iter__(self):
        return iter(self._d)

    def __len__(self):
        return len(self._d)

    def __eq__(self, other):
        return isinstance(other, _Env) and self._d == other._d

    def __deepcopy__(self, memo):
        e = _Env()
        e._d = copy.deepcopy(self._d, memo)
        return e


def check_seed(case, res: Res, md) -> None:
    R, D = case["R"], case["D"]
    if not R.endswith("\n"):
        R += "\n"
    envR: dict = {}
    tR = md.parse(R, envR)
    if [t for t in tR if t.type != "definition"]:
        res.cls.append("seed:R-not-pure-definitions")
        return
    nR = len(envR.get("references", {})) + len(envR.get("duplicate_refs", []))
    if nR == 0:
        res.cls.append("seed:R-empty")
        return
    et = case.get("envtype") or "dict"
    if et != "dict":
        # env may be any MutableMapping: the object the caller passes is the one that carries the definitions
        envT = _new_env(et)
        md.parse(R, envT)
        if _nomap(envT) != _nomap(envR):
            res.fail("seed:env-object-not-updated", f"env of type {et}: after parse(R, env) it holds {_nomap(envT)!r}, a dict env holds {_nomap(envR)!r}"[:600])
            return
        envR = envT
        res.cls.append("seed:env-type:" + et)
    env1 = copy.deepcopy(envR)
    h1 = md.render(D, env1)
    env2 = _new_env(et)
    full = R + "\n" + D
    h2 = md.render(full, env2)
    if h1 != h2:
        res.fail("seed:html-differs", f"R={R!r} D={D!r}: seeded {h1!r} != one-go {h2!r}"[:600])
    if _nomap(env1) != _nomap(env2):
        res.fail("seed:env-differs", f"R={R!r} D={D!r}: {_nomap(env1)!r} != {_nomap(env2)!r}"[:600])
    env3 = copy.deepcopy(envR)
    md.parse(R, env3)
    if _nomap(env3)[0] != _nomap(envR)[0]:
        res.fail("seed:twice-changes-references", f"R={R!r}: {_nomap(env3)[0]!r} != {_nomap(envR)[0]!r}"[:600])
    if len(env3.get("duplicate_refs", [])) != len(envR.get("duplicate_refs", [])) + nR:
        res.fail("seed:twice-duplicate-count", f"R={R!r}: {len(env3.get('duplicate_refs', []))} duplicates after the second parse, expected {len(envR.get('duplicate_refs', []))}+{nR}")
    h3 = md.render(D, copy.deepcopy(env3))
    if h3 != h1:
        res.fail("seed:twice-changes-rendering", f"R={R!r} D={D!r}"[:400])
    used = "href" in h1 or "src=" in h1
    res.nt = used or len(env1.get("duplicate_refs", [])) > len(envR.get("duplicate_refs", []))
    if used:
        res.cls.append("seed:link-resolved")


def check_book(case, res: Res, md) -> None:
    lines: list[str] = []
    spans = []
    wrap = case.get("wrap", "")
    for kind, text in case["blocks"]:
        tl = text.split("\n")
        start = len(lines)
        lines += tl
        if kind == "def":
            spans.append((start, start + len(tl), text))
        lines += [""] * case.get("gap", 1)
    if wrap == "> ":
        src = "".join("> " + ln + "\n" for ln in lines)
    elif wrap == "- ":
        src = "".join(("- " if i == 0 else "  ") + ln + "\n" for i, ln in enumerate(lines))
        if lines and not lines[0].strip():
            return
    else:
        src = "\n".join(lines) + "\n"
    env: dict = {}
    toks = md.parse(src, env)
    refs = env.get("references", {})
    dups = env.get("duplicate_refs", [])
    recorded = sorted([tuple(v["map"]) for v in refs.values()] + [tuple(v["map"]) for v in dups])
    expected = sorted((a, b) for a, b, _ in spans)
    if recorded != expected:
        res.fail("book:recorded-spans", f"src={src!r}: recorded maps {recorded} != spans written {expected}")
        return
    first: dict = {}
    for a, b, text in spans:
        lab = re.sub(r"[ \t\n]+", " ", text[1 : text.index("]:")].strip()).casefold()
        first.setdefault(lab, (a, b))
    winners = sorted(tuple(v["map"]) for v in refs.values())
    if winners != sorted(first.values()):
        res.fail("book:first-definition-wins", f"src={src!r}: references hold the definitions at {winners}, the first definition of each label was written at {sorted(first.values())}")
    if md.options.get("inline_definitions"):
        dtoks = sorted(tuple(t.map) for t in walk_tokens(toks) if t.type == "definition")
        if dtoks != expected:
            res.fail("book:definition-tokens", f"{dtoks} != {expected}")
    res.nt = len(spans) >= 2 and len(dups) >= 1
    res.cls.append(f"book:defs={min(len(spans), 4)}")


def check_label(case, res: Res, md) -> None:
    lab, var = case["label"], case["variant"]
    if not lab.strip() or "]" in lab.replace("\\]", "") or "[" in lab.replace("\\[", "") or "\n\n" in var or re.search(r"\n[ \t]*\n", var):
        res.cls.append("label:outside-domain")
        return
    if any(not ln.lstrip(" \t")[:1].isalpha() for ln in var.split("\n")[1:]):
        # a continuation line of the label must not be able to start a block (list marker, quote, heading ...)
        res.cls.append("label:outside-domain")
        return
    collapse = lambda s: re.sub(r"[ \t\n]+", " ", s.strip(" \t\n"))  # noqa: E731
    if collapse(lab).casefold() != collapse(var).casefold():
        res.cls.append("label:variant-folds-differently")
        return
    if len(collapse(lab)) == 0:
        return
    use = case["form"] % var
    d1 = f"[{lab}]: /dest\n"
    probe_env: dict = {}
    if md.parse(d1, probe_env) and not md.options.get("inline_definitions"):
        res.cls.append("label:definition-not-accepted")
        return
    if not probe_env.get("references"):
        res.cls.append("label:definition-not-accepted")
        return
    if case.get("seeded"):
        env = copy.deepcopy(probe_env)
        html = md.render(use + "\n", env)
    else:
        html = md.render(d1 + "\n" + use + "\n")
    want = 'src="/dest"' if case["form"].startswith("!") else 'href="/dest"'
    if want not in html:
        res.fail("label:variant-does-not-resolve", f"definition [{lab!r}] used as {use!r} -> {html!r}")
    res.nt = var != lab
    res.cls.append("label:checked")


def check_inline(case, res: Res, md) -> None:
    text, dest, title, sep = case["text"], case["dest"], case["title"], case.get("sep", " ")
    bang = "!" if case.get("image") else ""
    sep0 = case.get("sep0", " ")
    ref_doc = f"{bang}[{text}][r]\n\n[r]:{sep0}{dest}{sep if title else ''}{title}\n"
    inl_doc = f"{bang}[{text}]({dest}{sep if title else ''}{title})\n"
    # a title line that is a setext underline is outside the domain unless another enabled rule claims the line first in both
    # grammars (the reference rule runs before lheading; '===' - and '-' runs when list/hr are switched off - differ by design)
    active = md.get_active_rules()["block"]
    for ln in title.split("\n")[1:]:
        if re.fullmatch(r" {0,3}(=+|-+)[ \t]*", ln):
            body = ln.strip()
            claimed = (body == "-" and "list" in active) or (set(body) == {"-"} and len(body) >= 3 and "hr" in active)
            if not claimed:
                res.cls.append("inline:outside-domain(setext underline inside the title)")
                return
    t_ref = md.parse(ref_doc)
    t_inl = md.parse(inl_doc)

    def first_inline(toks):
        for t in toks:
            if t.type == "inline":
                return t
        return None

    a, b = first_inline(t_ref), first_inline(t_inl)
    kind = "image" if bang else "link_open"
    ref_ok = a is not None and a.children and a.children[0].type == kind and (bang or a.children[-1].type == "link_close") and len(t_ref) >= 3 and t_ref[0].type == "paragraph_open"
    # the definition must have been consumed entirely (nothing of it left as a paragraph)
    ref_ok = ref_ok and sum(1 for t in t_ref if t.type == "paragraph_open") == 1
    inl_ok = b is not None and b.children and b.children[0].type == kind and (bang or b.children[-1].type == "link_close") and sum(1 for t in t_inl if t.type == "paragraph_open") == 1
    if not ref_ok:
        res.cls.append("inline:ref-form-unresolved" + ("(inline form is a link)" if inl_ok else ""))
        if inl_ok and "\n" not in sep0 and dest.strip() and dest not in ("<>",) and "\n" not in title and (not title or sep.strip(" \t\n") == "" and sep != ""):
            # within this constructed domain (non-empty destination, well-formed single-line title, blank separators)
            # both grammars accept the same spellings, so the converse holds as well
            res.nt = True
            res.fail("inline:reference-form-not-a-link", f"{inl_doc!r} is a link/image but {ref_doc!r} -> {md.render(ref_doc)!r}")
        return
    res.nt = True
    res.cls.append("inline:checked")
    if not inl_ok:
        res.fail("inline:inline-form-not-a-link", f"{ref_doc!r} resolves but {inl_doc!r} -> {md.render(inl_doc)!r}")
        return
    ca, cb = dump(a.children), dump(b.children)
    for lst in (ca, cb):
        for tk in lst:
            # store_labels records the label of the reference form in meta - the documented extra of that option
            tk["meta"] = {k: v for k, v in (tk.get("meta") or {}).items() if k != "label"}
    if ca != cb:
        res.fail("inline:children-differ", f"{ref_doc!r} vs {inl_doc!r}: {first_diff(ca, cb)}")
        return
    ha = md.render(ref_doc)
    hb = md.render(inl_doc)
    if ha != hb:
        res.fail("inline:html-differs", f"{ha!r} != {hb!r}")


def check(case) -> Res:
    res = Res()
    md = C.build(case["cfg"])
    res.cls.append(case["kind"])
    {"seed": check_seed, "book": check_book, "label": check_label, "inline": check_inline}[case["kind"]](case, res, md)
    return res

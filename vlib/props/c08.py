"""C08 - verbatim content and recorded markup come from the source, unaltered."""
from __future__ import annotations

import re

from hypothesis import strategies as st

from .. import cfg as C
from .. import gen
from ..runner import Res
from ..util import normalize_src, src_lines

ID = "C08"
LEVEL = "exploration"
RULE = (
    "cases = (document x block-rule configuration), documents from the constructive generators with tabs at every "
    "column, containers, EOF without newline, plus code spans with edge blanks of several kinds; every code_block, "
    "fence, html_block, hr, heading, list, list item, block quote and code_inline token is checked against its own "
    "source lines (given by its map on the normalised input). Non-trivial = the document has a verbatim block inside "
    "a container or with a tab in its lines, a fence with info, an hr/heading/list token, or a code span with edge "
    "blanks; distinct = distinct case hash."
)
ASSUMPTIONS = [
    "inside containers a content line must be a suffix of its source line whose removed part matches the container-prefix grammar (or 1-3 pad spaces after a removed part ending in a tab); top-level code/fence/html lines are checked exactly against a 4-column tab-stop model",
]
SHRINK = {"text": ["src"], "list": ["cfg.enable", "cfg.disable"], "keys": ["cfg.options"]}

PREFIX_RE = re.compile(r"^(?:[ \t]*(?:>|[-+*]|\d{1,9}[.)])?)*[ \t]*$")
FIXED_CFGS = [
    C.simple("commonmark"), C.simple("js-default"), C.simple("commonmark", enable=["table"], disable=["code"]),
    C.simple("zero", enable=["list", "blockquote", "fence", "hr", "backticks", "code", "heading", "lheading"]),
    C.simple("js-default", html=True),
]
SPANS = [
    "` a `", "`  a  `", "` `", "`  `", "`   `", "` \t `", "` \x0b `", "` \x0c `", "`  \t `", "` a `", "` a`", "`a `", "`` ` ``", "`` `a` ``",
    "` `` `", "`a\nb`", "` a\n b `", "`\na\n`", "` \n `", "`a  b`", "`\ta\t`", "``` `` ```", "` \\ `", "`<b>`", "` &amp; `", "`` a`b ``", "` 　 `", "`   `",
    "` \x1f `", "` \x85 `", "`   `", "`` \t ``", "` `", "`  `",
]


def budget(tier: str) -> dict:
    return {"examples": 50000 if tier == "quick" else 1500000}


# backtick strings of several lengths next to link/image brackets: the inline parser visits link text twice (once to
# find the end of the label, once to tokenize it) and keeps a cache of backtick strings between the two visits
BT_ALPHA = ["`", "``", "```", " ", "a", "[", "](u)", "<", "\\", "!["]
_ENUM_MD: dict = {}


def enumerate_cases(tier: str, shard: int, nshards: int):
    import itertools

    alpha = BT_ALPHA[:9] if tier == "quick" else BT_ALPHA
    maxn = 6 if tier == "quick" else 7
    idx = 0
    for n in range(1, maxn + 1):
        for toks in itertools.product(alpha, repeat=n):
            idx += 1
            if idx % nshards != shard:
                continue
            if "`" not in toks and "``" not in toks and "```" not in toks:
                continue
            yield {"kind": "enum-backticks", "src": "".join(toks), "cfgi": 0}


def backtick_scenario(d) -> str:
    """Link/image text holding matched code spans and unmatched backtick strings of lengths 1..3, followed by more
    backtick strings after the link: the shape in which the two visits of link text can disagree."""

    def run(n):
        return "`" * n

    def filler():
        return d.pick([" ", "a", " a ", "<", "x ", "\\", "\n"])

    def item():
        k = d.i(0, 19)
        if k < 9:
            n = d.i(1, 3)
            inner = filler() + "".join(run(d.pick([m for m in (1, 2, 3) if m != n])) + filler() for _ in range(d.i(0, 2)))
            return run(n) + inner + run(n)
        if k < 16:
            return run(d.i(1, 3))
        return filler()

    label = filler().join(item() for _ in range(d.i(1, 4)))
    tail = filler().join(item() for _ in range(d.i(0, 3)))
    opener = d.pick(["[", "[", "![", "", "[x]: /u\n\n[", "*[", "> ["])
    if opener:
        return opener + label + d.pick(["](u)", "]()", "](u) ", "][x]", "]"]) + tail
    return label + " " + tail


@st.composite
def _case(draw):
    d = gen.D(draw)
    k = d.i(0, 11)
    if k >= 10:
        src = backtick_scenario(d)
    elif k < 2:
        parts = [d.pick(SPANS) if d.chance(0.6) else gen.word(d) for _ in range(d.i(1, 4))]
        src = d.pick(["", "", "> ", "- ", "# ", "![", "[", "| "]) + d.pick(["", " ", "x"]).join(parts)
        if src.startswith("!["):
            src += "](u)"
        elif src.startswith("["):
            src += "](u)"
    else:
        src = gen.any_doc_d(d)
    cfg = gen.maybe_late(d, d.pick(FIXED_CFGS)) if d.chance(0.7) else gen.config_d(d, allow_linkify=False)
    return {"src": src, "cfg": cfg}


def strategy(tier: str):
    return _case()


def strip_cols(line: str, n: int) -> str:
    """4-column tab-stop reference model: remove n columns of leading blanks, padding a split tab."""
    col = 0
    i = 0
    while i < len(line) and col < n:
        ch = line[i]
        if ch == " ":
            col += 1
            i += 1
        elif ch == "\t":
            nc = (col // 4 + 1) * 4
            if nc > n:
                return " " * (nc - n) + line[i + 1 :]
            col = nc
            i += 1
        else:
            break
    return line[i:]


class Cur:
    """Column-exact cursor over one source line: a tab is a run of blank cells up to the next
    multiple-of-four column (counted from the physical line start); cells can be consumed one by one,
    the unconsumed cells of a split tab are emitted as spaces."""

    def __init__(self, line: str) -> None:
        self.s = line
        self.i = 0
        self.col = 0
        self.pad = 0

    def take(self, n: int) -> int:
        got = 0
        while got < n:
            if self.pad:
                self.pad -= 1
                got += 1
                continue
            if self.i >= len(self.s):
                break
            ch = self.s[self.i]
            if ch == " ":
                self.i += 1
                self.col += 1
                got += 1
            elif ch == "\t":
                w = 4 - self.col % 4
                self.i += 1
                self.col += w
                self.pad = w - 1
                got += 1
            else:
                break
        return got

    def blank_ahead(self) -> int:
        c = Cur(self.s)
        c.i, c.col, c.pad = self.i, self.col, self.pad
        return c.take(10**6)

    def rest_len(self) -> int:
        return self.pad + len(self.s) - self.i

    def at_eol(self) -> bool:
        return self.pad == 0 and self.i >= len(self.s)

    def rest(self):
        """Acceptable spellings of the remainder: the unconsumed cells of a split tab as spaces, or the
        tab kept as written (the property allows either: 'a partially consumed tab may be replaced')."""
        if self.pad:
            return (" " * self.pad + self.s[self.i :], "\t" + self.s[self.i :])
        return (self.s[self.i :],)


def enter_quotes(line: str, depth: int):
    """Cursor positioned after `depth` block-quote markers (each: up to 3 columns of indentation, '>',
    one optional blank column); None if the line does not have them."""
    c = Cur(line)
    for _ in range(depth):
        if c.blank_ahead() >= 4 and c.blank_ahead() != c.rest_len():
            return None
        c.take(3)
        if c.pad or c.i >= len(c.s) or c.s[c.i] != ">":
            return None
        c.i += 1
        c.col += 1
        c.take(1)
    return c


def quote_model(kind: str, L: list, b: int, e: int, depth: int, k_content: int):
    """Expected content lines of a verbatim block whose ancestors are `depth` block quotes only."""
    out = []
    if kind == "code_block":
        for ln in L[b:e]:
            c = enter_quotes(ln, depth)
            if c is None:
                return None
            c.take(4)
            out.append(c.rest())
        return out
    if kind == "html_block":
        for ln in L[b:e]:
            c = enter_quotes(ln, depth)
            if c is None:
                return None
            out.append(c.rest())
        return out
    # fence: remove the opener's indentation (in columns, inside the quote) from every content line
    c0 = enter_quotes(L[b], depth)
    if c0 is None:
        return None
    indent = c0.blank_ahead()
    for ln in L[b + 1 : b + 1 + k_content]:
        c = enter_quotes(ln, depth)
        if c is None:
            return None
        c.take(indent)
        out.append(c.rest())
    return out


def columns(blanks: str) -> int:
    col = 0
    for ch in blanks:
        col = (col // 4 + 1) * 4 if ch == "\t" else col + 1
    return col


def line_ok(c: str, L: str) -> bool:
    if L.endswith(c) and PREFIX_RE.match(L[: len(L) - len(c)]):
        return True
    for j in (1, 2, 3):
        if c[:j] == " " * j and L.endswith(c[j:]):
            p = L[: len(L) - len(c[j:])]
            if p.endswith("\t") and PREFIX_RE.match(p):
                return True
    return False


def norm_span(raw: str) -> str:
    c = raw.replace("\n", " ")
    if len(c) >= 2 and c[0] == " " and c[-1] == " " and c.strip(" ") != "":
        c = c[1:-1]
    return c


def check_inline_children(raw: str, children, res: Res, stats: dict) -> None:
    for ch in children or []:
        if ch.type == "code_inline":
            m = ch.markup
            if not m or set(m) != {"`"}:
                res.fail("codespan:markup", repr(m))
                continue
            delim = r"(?<!`)" + re.escape(m) + r"(?!`)"
            # an opening string may directly follow a backslash-escaped (literal) backtick
            opener = r"(?:(?<!`)|(?<=\\`))" + re.escape(m) + r"(?!`)"
            pat = re.compile(opener + r"(.*?)" + delim, re.S)
            ok = False
            for st_ in [x.start() for x in re.finditer(opener, raw)]:
                mm = pat.match(raw, st_)
                if mm and norm_span(mm.group(1)) == ch.content:
                    ok = True
                    if mm.group(1)[:1] in " \t\n \x0b\x0c" or mm.group(1)[-1:] in " \t\n \x0b\x0c":
                        stats["codespan_edge_blank"] = True
                    break
            if not ok:
                res.fail("codespan:content", f"code_inline content {ch.content!r} (markup {m!r}) is not the text between backtick strings in {raw!r}")
        if ch.type == "image":
            check_inline_children(ch.content, ch.children, res, stats)


def check_tokens(src: str, tokens, res: Res, stats: dict) -> None:
    L = src_lines(src)
    normed = normalize_src(src)
    n = len(L)
    stack: list = []
    for idx, t in enumerate(tokens):
        if t.nesting == -1:
            if stack:
                stack.pop()
            continue
        top = not stack
        m = t.map
        has_map = isinstance(m, list) and len(m) == 2 and 0 <= m[0] < m[1] <= n
        if t.type in ("code_block", "fence", "html_block", "hr", "heading_open", "bullet_list_open", "ordered_list_open", "list_item_open", "blockquote_open") and not has_map:
            # map geometry is C03's subject; without a usable map nothing can be compared here
            if t.nesting == 1:
                stack.append(t)
            continue
        if t.type == "code_block":
            b, e = m
            cl = t.content.split("\n")
            if cl[-1] != "" or len(cl) - 1 != e - b:
                res.fail("code_block:line-count", f"map {m} but content {t.content!r}")
            else:
                for i, c in enumerate(cl[:-1]):
                    if not line_ok(c, L[b + i]):
                        res.fail("code_block:line", f"content line {c!r} vs source line {L[b + i]!r}")
                        break
                    if top and c != strip_cols(L[b + i], 4):
                        res.fail("code_block:exact-top-level", f"content line {c!r} != model {strip_cols(L[b + i], 4)!r} for {L[b + i]!r}")
                        break
                else:
                    if stack and all(a.type == "blockquote_open" for a in stack):
                        qm = quote_model("code_block", L, b, e, len(stack), 0)
                        if qm is not None:
                            stats["exact_model_in_quotes"] = True
                            if any(y not in x for x, y in zip(qm, cl[:-1])):
                                j = [y not in x for x, y in zip(qm, cl[:-1])].index(True)
                                res.fail("code_block:exact-in-quotes", f"content line {cl[j]!r} != column model {qm[j]!r} for source line {L[b + j]!r}")
            if not top or "\t" in "".join(L[b:e]):
                stats["verbatim_in_container_or_tab"] = True
        elif t.type == "fence":
            b, e = m
            cl = t.content.split("\n")
            if cl[-1] == "":
                cl.pop()
            elif t.content and not (e == n and not normed.endswith("\n")):
                res.fail("fence:missing-final-newline", f"content {t.content!r} map {m} of {n} lines")
            k = len(cl)
            mch = t.markup[:1]
            if mch not in ("`", "~") or set(t.markup) != {mch} or len(t.markup) < 3:
                res.fail("fence:markup-shape", repr(t.markup))
            else:
                first = L[b].find(mch)
                run = re.match(re.escape(mch) + "+", L[b][first:]).group(0) if first >= 0 else None
                if run != t.markup or not PREFIX_RE.match(L[b][:first]):
                    res.fail("fence:markup", f"markup {t.markup!r} vs opening line {L[b]!r}")
                elif L[b][first + len(run) :] != t.info:
                    res.fail("fence:info", f"info {t.info!r} vs opening line {L[b]!r}")
                else:
                    if t.info.strip():
                        stats["fence_with_info"] = True
                    if k not in (e - b - 1, e - b - 2):
                        res.fail("fence:line-count", f"map {m} but {k} content lines: {t.content!r}")
                    else:
                        for i in range(k):
                            if not line_ok(cl[i], L[b + 1 + i]):
                                res.fail("fence:line", f"content line {cl[i]!r} vs source line {L[b + 1 + i]!r}")
                                break
                            if top and cl[i] != strip_cols(L[b + 1 + i], columns(L[b][:first])):
                                res.fail("fence:exact-top-level", f"content line {cl[i]!r} != model {strip_cols(L[b + 1 + i], columns(L[b][:first]))!r} for {L[b + 1 + i]!r}")
                                break
                        else:
                            if stack and all(a.type == "blockquote_open" for a in stack):
                                qm = quote_model("fence", L, b, e, len(stack), k)
                                if qm is not None:
                                    stats["exact_model_in_quotes"] = True
                                    if any(y not in x for x, y in zip(qm, cl)):
                                        j = [y not in x for x, y in zip(qm, cl)].index(True)
                                        res.fail("fence:exact-in-quotes", f"content line {cl[j]!r} != column model {qm[j]!r} for source line {L[b + 1 + j]!r}")
                        if k == e - b - 2:
                            closing = L[e - 1]
                            if t.markup not in closing:
                                res.fail("fence:closing-line", f"closing line {closing!r} for markup {t.markup!r}")
            if not top or "\t" in "".join(L[b:e]):
                stats["verbatim_in_container_or_tab"] = True
        elif t.type == "html_block":
            b, e = m
            cl = t.content.split("\n")
            haslf = e < n or normed.endswith("\n")
            bad = False
            if haslf:
                if cl[-1] != "":
                    res.fail("html_block:missing-final-newline", f"content {t.content!r} map {m}")
                    bad = True
                else:
                    cl.pop()
            if not bad:
                if len(cl) != e - b:
                    res.fail("html_block:line-count", f"map {m} but content {t.content!r}")
                else:
                    for i, c in enumerate(cl):
                        if not line_ok(c, L[b + i]):
                            res.fail("html_block:line", f"content line {c!r} vs source line {L[b + i]!r}")
                            break
                    else:
                        if top and cl != L[b:e]:
                            res.fail("html_block:exact-top-level", f"{cl!r} != {L[b:e]!r}")
                        elif stack and all(a.type == "blockquote_open" for a in stack):
                            qm = quote_model("html_block", L, b, e, len(stack), 0)
                            if qm is not None:
                                stats["exact_model_in_quotes"] = True
                                if any(y not in x for x, y in zip(qm, cl)):
                                    j = [y not in x for x, y in zip(qm, cl)].index(True)
                                    res.fail("html_block:exact-in-quotes", f"content line {cl[j]!r} != column model {qm[j]!r} for source line {L[b + j]!r}")
            if not top or "\t" in "".join(L[b:e]):
                stats["verbatim_in_container_or_tab"] = True
        elif t.type == "hr":
            b, e = m
            mk = t.markup[:1]
            if mk not in ("-", "*", "_") or set(t.markup) != {mk}:
                res.fail("hr:markup-shape", repr(t.markup))
            else:
                sfx = re.search(r"[" + re.escape(mk) + r" \t]*$", L[b]).group(0)
                if t.markup != mk * sfx.count(mk):
                    res.fail("hr:markup", f"markup {t.markup!r} vs line {L[b]!r}")
            stats["hr_heading_list"] = True
        elif t.type == "heading_open":
            b, e = m
            if t.markup[:1] == "#":
                mm = re.search("#+", L[b])
                if not mm or mm.group(0) != t.markup or not PREFIX_RE.match(L[b][: mm.start()]):
                    res.fail("heading:atx-markup", f"markup {t.markup!r} vs line {L[b]!r}")
                elif t.tag != "h%d" % len(t.markup):
                    res.fail("heading:atx-tag", f"{t.tag} for {t.markup!r}")
            else:
                ul = L[e - 1]
                if t.markup not in ("=", "-") or t.markup not in ul or ul.strip(" \t>").strip(t.markup + " \t") != "":
                    # the underline may sit after list indentation/markers of enclosing containers
                    core = ul.strip(" \t")
                    if t.markup not in ("=", "-") or not re.search(re.escape(t.markup) + r"+[ \t]*$", core):
                        res.fail("heading:setext-markup", f"markup {t.markup!r} vs underline {ul!r}")
                    elif not PREFIX_RE.match(re.sub(re.escape(t.markup) + r"+[ \t]*$", "", ul)):
                        res.fail("heading:setext-markup", f"markup {t.markup!r} vs underline {ul!r}")
            stats["hr_heading_list"] = True
        elif t.type in ("bullet_list_open", "ordered_list_open", "list_item_open"):
            b, e = m
            if t.type == "bullet_list_open" or (t.type == "list_item_open" and t.markup in ("-", "+", "*")):
                if t.markup not in ("-", "+", "*") or not re.search(r"(?:^|[ \t>)\.\-+*])" + re.escape(t.markup) + r"(?=[ \t]|$)", L[b]):
                    res.fail("list:bullet-markup", f"markup {t.markup!r} vs line {L[b]!r}")
            elif t.type == "list_item_open":
                if not re.fullmatch(r"\d{1,9}", t.info or "") or t.markup not in (".", ")"):
                    res.fail("list:ordered-item-info", f"info {t.info!r} markup {t.markup!r} vs line {L[b]!r}")
                elif not re.search(r"(?<![0-9])" + t.info + re.escape(t.markup) + r"(?=[ \t]|$)", L[b]):
                    res.fail("list:ordered-item-info", f"info {t.info!r} markup {t.markup!r} vs line {L[b]!r}")
            else:
                item = tokens[idx + 1] if idx + 1 < len(tokens) else None
                if item is None or item.type != "list_item_open":
                    res.fail("list:no-first-item", "")
                elif re.fullmatch(r"\d{1,9}", item.info or ""):
                    st_ = t.attrs.get("start", 1)
                    if st_ != int(item.info) or ("start" in t.attrs and st_ == 1) or not isinstance(st_, int):
                        res.fail("list:ordered-start", f"attrs {t.attrs} vs first item info {item.info!r}")
                    if t.markup != item.markup:
                        res.fail("list:ordered-markup", f"{t.markup!r} vs item {item.markup!r}")
            stats["hr_heading_list"] = True
        elif t.type == "blockquote_open":
            if t.markup != ">" or ">" not in L[m[0]]:
                res.fail("blockquote:markup", f"markup {t.markup!r} vs line {L[m[0]]!r}")
        elif t.type == "inline":
            check_inline_children(t.content, t.children, res, stats)
        if t.nesting == 1:
            stack.append(t)


def check(case) -> Res:
    res = Res()
    if "cfgi" in case:
        md = _ENUM_MD.get(case["cfgi"]) or _ENUM_MD.setdefault(case["cfgi"], C.build(FIXED_CFGS[case["cfgi"]]))
    else:
        md = C.build(case["cfg"])
    toks = md.parse(case["src"])
    stats: dict = {}
    check_tokens(case["src"], toks, res, stats)
    res.nt = bool(stats)
    res.cls.extend(stats)
    if "\t" in case["src"]:
        res.cls.append("has_tab")
    return res

"""C20 - work grows at most linearly on adversarial inputs (guards hold)."""
from __future__ import annotations

import re
import sys

from hypothesis import strategies as st

from .. import boot
from .. import cfg as C
from .. import gen
from ..runner import Res

ID = "C20"
LEVEL = "exploration"
RULE = (
    "cases = (input family x base length L x preset): a catalogue of scalable pathological families (bracket, link, "
    "image, emphasis, strikethrough, backtick, entity, angle-bracket, escape, block quote, list, lazy line, table, "
    "reference definition, heading, fence, HTML block, blank line, title and destination families) and, in the "
    "thorough tier (a small share in quick), Hypothesis-generated families prefix.unit^n.middle.unit'^n.suffix over "
    "an atom alphabet. Cost = number of Python-level calls into markdown_it code during render (sys.setprofile; "
    "deterministic). For lengths about L, 2L, 4L: cost(2x)/cost(x) <= 1.25 * len(2x)/len(x) at both doublings and "
    "cost-per-character(4L) <= 1.3 * cost-per-character(L) + 5. Nesting families: beyond maxNesting the cost per "
    "character and the Python call depth do not grow. Non-trivial = the largest input of the case costs >= 10^4 "
    "calls; distinct = distinct (family, L, preset). Second, finer deterministic measure of the same work: executed source "
    "lines of markdown_it code (sys.monitoring LINE events) - a rule's inner loop iterations are helper work written "
    "in line; the same growth predicate is applied to it (signature superlinear-lines), so that a guard whose removal "
    "adds no call (delimiter lower bounds, backtick scan cache) is still visible."
)
ASSUMPTIONS = [
    "work inside C-level string/regex primitives is invisible to both measures (by the property's own definition of the measure)",
    "'roughly doubles' is operationalised by the stated thresholds (linear families measure 0.95-1.02, quadratic ones 1.9-2.0)",
]
NO_SHRINK = True

PRESETS = {
    "commonmark": C.simple("commonmark"),
    "js-default+typographer": C.simple("js-default", typographer=True),
    "js-default+html+linkify": C.simple("js-default", html=True, linkify=True),
}

F = {
    "brackets_open": lambda n: "[" * n,
    "brackets_close": lambda n: "]" * n,
    "brackets_nested": lambda n: "[" * n + "a" + "]" * n,
    "brackets_pairs": lambda n: "[]" * n,
    "brackets_open_text": lambda n: "[a" * n,
    "bang_brackets_open": lambda n: "![" * n,
    # an opener, a long run of delimiters of another kind, then closers in crossing order (long-range pairing tables)
    "cross_star_underscore": lambda n: "*a" + " _b" * n + " c* d_",
    "cross_strong_em": lambda n: "**a" + " *b" * n + " c** d*",
    "cross_strike_em": lambda n: "~~a" + " *b" * n + " c~~ d*",
    "cross_link_em": lambda n: "[a" + " *b" * n + "](u) c*",
    "cross_em_link": lambda n: "*a" + " [b" * n + " c*](u)",
    # two-part families: something that touches the inline nesting bookkeeping, then a deep run of openers
    "html_a_close_then_brackets": lambda n: "</a>" * n + "[" * n,
    "html_a_open_then_brackets": lambda n: "<a>" * n + "[" * n,
    "html_a_close_then_images": lambda n: "</a>" * n + "![" * n,
    "links_then_brackets": lambda n: "[a](u)" * n + "[" * n,
    "emph_then_brackets": lambda n: "*a* " * n + "[" * n,
    "autolinks_then_brackets": lambda n: "<http://a.b>" * n + "[" * n,
    "code_then_brackets": lambda n: "`a`" * n + "[" * n,
    "link_nested": lambda n: "[" * n + "a" + "](u)" * n,
    "link_flat": lambda n: "[a](u) " * n,
    "link_openparen": lambda n: "[a](" * n,
    "link_open_angle": lambda n: "[a](<b" * n,
    "link_dest_only": lambda n: "[a](b" * n,
    "link_title_paren_unclosed": lambda n: "[a](b (c" * n,
    "link_title_dq_unclosed": lambda n: '[a](b "c' * n,
    "link_title_sq_unclosed": lambda n: "[a](b 'c" * n,
    "image_title_paren_unclosed": lambda n: "![a](b (c" * n,
    "img_nested": lambda n: "![" * n + "a" + "](u)" * n,
    "img_flat": lambda n: "![a](u) " * n,
    "ref_links_unresolved": lambda n: "[a][b] " * n,
    "ref_links_resolved": lambda n: "[r]: /u\n\n" + "[a][r] " * n,
    "ref_shortcut_unresolved": lambda n: "[a] " * n,
    "em_open": lambda n: "*a " * n,
    "em_close": lambda n: "a* " * n,
    "em_alt": lambda n: "*a_ " * n,
    "em_nested": lambda n: "*" * n + "a" + "*" * n,
    "em_under_nested": lambda n: "_" * n + "a" + "_" * n,
    "em_worst": lambda n: "*_*_" * n + "a",
    "em_star_under": lambda n: "a**b" + "c* " * n,
    "em_mix3": lambda n: "*a **b ***c " * n,
    "em_pairs": lambda n: "*a* " * n,
    # unmatched closers/openers of several marker characters interleaved (per-marker lower bounds of the opener search)
    "em_closers_two_markers": lambda n: "a* b_ " * n,
    "em_closers_three_markers": lambda n: "a* b_ c~~ " * n,
    "em_closers_strong_two_markers": lambda n: "a** b__ " * n,
    "em_closers_lengths": lambda n: "a* b** c*** " * n,
    "em_openers_two_markers": lambda n: "*a _b " * n,
    "em_openers_three_markers": lambda n: "*a _b ~~c " * n,
    "em_both_flanking_two_markers": lambda n: "a*b_c" * n,
    "em_both_flanking_three_markers": lambda n: "a*b_c~~d" * n,
    "em_open_then_close_two_markers": lambda n: "*a _b " * n + "c* d_ " * n,
    "em_crossing_pairs": lambda n: "*a _b c* d_ " * n,
    "em_openers_then_closers": lambda n: "*a " * n + "b* " * n,
    "strike": lambda n: "~~a " * n,
    "strike_nested": lambda n: "~~" * n + "a" + "~~" * n,
    "strike_pairs": lambda n: "~~a~~ " * n,
    "backticks_open": lambda n: "`" * n,
    "backticks_growing": lambda n: "".join("`" * i + " " for i in range(1, int((2 * n) ** 0.5) + 1)),
    "backticks_unmatched": lambda n: "`a" * n,
    "backticks_pairs": lambda n: "`a` " * n,
    "backticks_alternating": lambda n: "`` ` " * n,
    "entities": lambda n: "&amp;" * n,
    "entities_bad": lambda n: "&a" * n,
    "entities_numeric": lambda n: "&#35;" * n,
    "amp": lambda n: "&" * n,
    "angle_open": lambda n: "<" * n,
    "angle_tags": lambda n: "<a>" * n,
    "angle_unclosed": lambda n: "<a " * n,
    "autolinks": lambda n: "<http://a.b> " * n,
    "autolink_unclosed": lambda n: "<http://a" * n,
    "html_comment_open": lambda n: "<!--" * n,
    "html_pi_open": lambda n: "<?" * n,
    "html_cdata_open": lambda n: "<![CDATA[" * n,
    "html_attr_unclosed": lambda n: "<a b='" * n,
    "escapes": lambda n: "\\*" * n,
    "backslashes": lambda n: "\\" * n,
    "bq_nested": lambda n: ">" * n + " a",
    "bq_nested_spaced": lambda n: "> " * n + "a",
    "bq_lines": lambda n: "> a\n" * n,
    "bq_lazy": lambda n: "> a\n" + "b\n" * n,
    "bq_empty_lines": lambda n: ">\n" * n,
    "list_nested": lambda n: "".join(" " * (2 * i) + "- a\n" for i in range(max(1, int(n**0.5)))),
    "list_flat": lambda n: "- a\n" * n,
    "list_loose": lambda n: "- a\n\n" * n,
    "list_inline_nested": lambda n: "- " * n + "a",
    "list_ordered_inline_nested": lambda n: "1. " * n + "a",
    "list_empty_items": lambda n: "-\n" * n,
    "list_bq_alternating": lambda n: "- > " * n + "a",
    "ol_flat": lambda n: "1. a\n" * n,
    "lazy_para": lambda n: "a\n" * n,
    "lazy_indented": lambda n: "a\n" + "     b\n" * n,
    "table_rows": lambda n: "a|b\n-|-\n" + "c|d\n" * n,
    "table_cols": lambda n: "|".join("a" for _ in range(n)) + "\n" + "|".join("-" for _ in range(n)) + "\n",
    # k columns in the header, k one-cell rows: the missing k*(k-1) cells are filled in by the parser
    "table_sparse_square": lambda n: "|".join("a" for _ in range(max(2, n))) + "\n" + "|".join("-" for _ in range(max(2, n))) + "\n" + "b\n" * max(2, n),
    "table_header_only_lines": lambda n: "a|b\n" * n,
    "table_escaped_pipes": lambda n: "a|b\n-|-\n" + "\\|" * n + "\n",
    "refdefs_consecutive": lambda n: "".join("[r%d]: /u\n" % i for i in range(n)),
    "refdefs_separated": lambda n: "".join("[r%d]: /u\n\n" % i for i in range(n)),
    "refdefs_same_label_separated": lambda n: "[r]: /u\n\n" * n,
    "refdefs_consecutive_dest_on_next_line": lambda n: "[a]: \n" * n,
    "refdef_like_invalid": lambda n: "[a]:\n\n" * n,
    "refdef_label_open": lambda n: "[" + "a\n" * n,
    "refdef_title_open": lambda n: '[a]: /u "' + "b\n" * n,
    "headings": lambda n: "# a\n" * n,
    "heading_hashes": lambda n: "#" * n + " a",
    "setext": lambda n: "a\n===\n" * n,
    "setext_long_para": lambda n: "a\n" * n + "===\n",
    "hrs": lambda n: "---\n" * n,
    "hr_long": lambda n: "- " * n,
    "fences": lambda n: "```\na\n```\n" * n,
    "fence_unclosed": lambda n: "```\n" + "a\n" * n,
    "fence_openers": lambda n: "```\n" * n,
    "code_indented": lambda n: "    a\n" * n,
    "code_blank_lines": lambda n: "    a\n" + "\n" * n + "    b\n",
    "html_blocks": lambda n: "<div>\n\n" * n,
    "html_block_unclosed": lambda n: "<!--\n" + "a\n" * n,
    "blank_lines": lambda n: "\n" * n,
    "hardbreaks": lambda n: "a  \n" * n,
    "long_word": lambda n: "a" * n,
    "spaces": lambda n: "a" + " " * n + "b",
    "tabs": lambda n: "\t" * n + "a",
    "quotes": lambda n: "\"a' " * n,
    "quotes_open": lambda n: '"' * n,
    "dots_dashes": lambda n: "... -- " * n,
    "urls_linkify": lambda n: "http://a.b/c " * n,
    "emails_linkify": lambda n: "a@b.c " * n,
    "colons": lambda n: "a:" * n,
    "parens_dest": lambda n: "[a](" + "(" * n + ")" * n + ")",
    "parens_dest_unbalanced": lambda n: "[a](" + "(" * n,
    "title_unclosed": lambda n: '[a](u "' + "b" * n,
    "title_escaped": lambda n: '[a](u "' + '\\"' * n + '")',
    "label_escaped": lambda n: "[" + "\\]" * n + "](u)",
    "nul_chars": lambda n: "\0" * n,
    "crlf_lines": lambda n: "a\r\n" * n,
}
# an unclosed opener followed by a long run of one character: every character of the run is visited by the
# validation-mode scan behind the opener
for _ch, _nm in (("*", "stars"), ("_", "underscores"), ("~", "tildes"), ("`", "backticks"), ("<", "angles"), ("&", "amps"), ("\\", "backslashes"), ("!", "bangs"), ("(", "parens"), ("a", "letters"), (" ", "spaces"), ("\"", "quotes")):
    F[f"bracket_then_{_nm}"] = (lambda c: (lambda n: "[" + c * n))(_ch)
    F[f"image_then_{_nm}_closed"] = (lambda c: (lambda n: "![" + c * n + "](u)"))(_ch)
# families whose guard only engages beyond a certain size are measured from there on
MIN_L = {"table_sparse_square": 3000}
NEST = {
    "bq": lambda d: ">" * d + " a\n",
    "list": lambda d: "- " * d + "a\n",
    "ordered": lambda d: "1. " * d + "a\n",
    "brackets": lambda d: "[" * d + "a" + "]" * d + "\n",
    "links": lambda d: "[" * d + "a" + "](u)" * d + "\n",
    "images": lambda d: "![" * d + "a" + "](u)" * d + "\n",
    "emphasis": lambda d: "*a " * d + "b" + " c*" * d + "\n",
    "bq_list": lambda d: "> - " * d + "a\n",
}
KNOWN_D10 = re.compile(r"(?m)^[ >]{0,6}\[[^\]\n]+\]:.*\n[ >]{0,6}\[[^\]\n]+\]:")


def budget(tier: str) -> dict:
    if tier == "quick":
        return {"examples": 96, "L": [500], "gen_L": 1200}
    return {"examples": 6000, "L": [500, 4000, 25000], "gen_L": 2000}


_TIER = {"gen_L": 1200}


class CostExplosion(BaseException):
    pass


CALL_LIMIT = 3 * 10**8  # absolute ceiling of one measurement
LINE_LIMIT = 3 * 10**9
CASE_TIMEOUT_S = 1800  # the wall-clock guard of the runner is not a verdict; measurements are bounded by call budgets


def call_budget(length: int) -> int:
    """Deterministic abort threshold of one measurement: 2500 calls per character (the costliest linear family of
    the catalogue needs ~850) - beyond it the cost is reported as an explosion instead of being measured to the end."""
    return min(CALL_LIMIT, 2500 * (length + 400))


def line_budget(length: int) -> int:
    """Same for executed library lines: 40000 per character (the costliest linear family needs ~4100)."""
    return min(LINE_LIMIT, 40000 * (length + 400))


class Cost:
    def __init__(self, limit: int = CALL_LIMIT, line_limit: int = LINE_LIMIT) -> None:
        self.root = boot.lib_root()
        self.n = 0
        self.lines = 0
        self.depth = 0
        self.maxdepth = 0
        self.limit = limit
        self.line_limit = line_limit

    def prof(self, frame, event, arg):  # noqa: ARG002
        if event == "call":
            self.depth += 1
            if self.depth > self.maxdepth:
                self.maxdepth = self.depth
            if frame.f_code.co_filename.startswith(self.root):
                self.n += 1
                if self.n > self.limit:
                    sys.setprofile(None)
                    raise CostExplosion()
        elif event == "return":
            self.depth -= 1

    def line(self, code, lineno):  # noqa: ARG002
        if code.co_filename.startswith(self.root):
            self.lines += 1
            if self.lines > self.line_limit:
                _MON.set_events(_TOOL, 0)
                raise CostExplosion()
            return None
        return _MON.DISABLE


_MON = sys.monitoring
_TOOL = _MON.PROFILER_ID
_ARMED = [False]


def cost2(md, src: str, limit: int = CALL_LIMIT, line_limit: int | None = None) -> tuple[int, int, int]:
    """(calls, executed library lines, maximal Python call depth) of one render; calls = -1 on RecursionError."""
    c = Cost(limit, line_limit if line_limit is not None else LINE_LIMIT)
    if not _ARMED[0]:
        try:
            _MON.use_tool_id(_TOOL, "verif-c20-lines")
        except ValueError:
            pass
        _ARMED[0] = True
    _MON.register_callback(_TOOL, _MON.events.LINE, c.line)
    _MON.restart_events()
    _MON.set_events(_TOOL, _MON.events.LINE)
    sys.setprofile(c.prof)
    try:
        md.render(src)
    except CostExplosion:
        return c.n, c.lines, c.maxdepth
    except RecursionError:
        return -1, c.lines, c.maxdepth
    finally:
        sys.setprofile(None)
        _MON.set_events(_TOOL, 0)
        _MON.register_callback(_TOOL, _MON.events.LINE, None)
    return c.n, c.lines, c.maxdepth


def cost(md, src: str, limit: int = CALL_LIMIT) -> tuple[int, int]:
    n, _, d = cost2(md, src, limit)
    return n, d


def sized(f, target: int) -> str:
    """f(n) of length about `target` (f is monotone in n)."""
    lo, hi = 1, 2
    while len(f(hi)) < target and hi < 10**7:
        lo, hi = hi, hi * 2
    while lo < hi:
        mid = (lo + hi) // 2
        if len(f(mid)) < target:
            lo = mid + 1
        else:
            hi = mid
    return f(lo)


ATOMS = ["[", "]", "(", ")", "!", "*", "_", "~", "`", "<", ">", "&", "#", "-", "+", "|", "\\", '"', "'", "a", "1", " ", "\n", "  ", "    ", ":", ".", "/", "=", "u", "&amp;", "<a", "](", "![", "> ", "- ", "1. ", "\n\n", "```", "]:", " \"", "<!--", "http://", "@", "</a>", "<a>", "</b>", "<!--", "-->", "](u)", "*a*"]


@st.composite
def _case(draw):
    d = gen.D(draw)

    def piece(maxn):
        return "".join(d.pick(ATOMS) for _ in range(d.i(0, maxn)))

    unit = (piece(3) or "[")[:8]
    return {
        "kind": "generated", "prefix": piece(3), "unit": unit, "middle": piece(3), "unit2": piece(3), "suffix": piece(3),
        "preset": d.pick(sorted(PRESETS)), "L": _TIER["gen_L"],
    }


def strategy(tier: str):
    _TIER.update(budget(tier))
    return _case()


def enumerate_cases(tier: str, shard: int, nshards: int):
    idx = 0
    b = budget(tier)
    for L in b["L"]:
        for name in sorted(F):
            for p in sorted(PRESETS):
                if L > 4000 and p != "commonmark":
                    continue
                idx += 1
                if idx % nshards == shard:
                    yield {"kind": "catalogue", "family": name, "L": L, "preset": p}
    for name in sorted(NEST):
        for p in ("commonmark", "js-default+typographer"):
            idx += 1
            if idx % nshards == shard:
                yield {"kind": "nesting", "family": name, "preset": p}


_MDS: dict = {}


def _md(p: str):
    if p not in _MDS:
        _MDS[p] = C.build(PRESETS[p])
    return _MDS[p]


def _slope(pts) -> float:
    """Least-squares slope of log(cost) against log(length)."""
    import math

    xs = [math.log(l) for l, _ in pts]
    ys = [math.log(max(c, 1)) for _, c in pts]
    n = len(pts)
    mx, my = sum(xs) / n, sum(ys) / n
    den = sum((x - mx) ** 2 for x in xs)
    return sum((x - mx) * (y - my) for x, y in zip(xs, ys)) / den if den else 1.0


def _verdict(pts, floor: int, slack: float) -> str:
    """'small' (constants dominate) | 'ok' | 'super' | 'ambiguous' for one (length, cost) series at L, 2L, 4L."""
    if pts[-1][1] < floor:
        return "small"
    ratios = [(c1 / max(c0, 1)) / (l1 / l0) for (l0, c0), (l1, c1) in zip(pts, pts[1:])]
    cpc0, cpc2 = pts[0][1] / pts[0][0], pts[-1][1] / pts[-1][0]
    if all(r <= 1.25 for r in ratios) and cpc2 <= 1.3 * cpc0 + slack:
        return "ok"
    if all(r >= 1.6 for r in ratios):
        return "super"
    return "ambiguous"


def growth(md, f, L: int, res: Res, name: str, preset: str) -> None:
    """cost at L, 2L, 4L in both measures (library calls; executed library lines).  Clear cases are decided
    there (every doubling <= 1.25 x length ratio: holds; every doubling >= 1.6 x: super-linear).  In between -
    the cost per character of some bounded families oscillates by a factor of up to ~3 around the nesting
    cut-off - two more doublings are measured and the growth exponent over the 16-fold range decides
    (> 1.45: super-linear)."""
    pts: list = []  # (length, calls)
    ptl: list = []  # (length, lines)

    def measure(k):
        s = sized(f, L * k)
        c, ln, _ = cost2(md, s, call_budget(len(s)), line_budget(len(s)))
        pts.append((len(s), c))
        ptl.append((len(s), ln))

    for k in (1, 2, 4):
        measure(k)
        if pts[-1][1] < 0:
            res.fail(f"recursion-error:{name}:{preset}", f"{name}: RecursionError at length {pts[-1][0]}")
            return
        if pts[-1][1] > call_budget(pts[-1][0]):
            res.nt = True
            res.fail(f"cost-explosion:{name}:{preset}", f"{name}: more than {pts[-1][1] - 1} library calls for {pts[-1][0]} characters (deterministic call budget exceeded); (length, calls) so far {pts}")
            return
        if ptl[-1][1] > line_budget(ptl[-1][0]):
            res.nt = True
            res.fail(f"cost-explosion-lines:{name}:{preset}", f"{name}: more than {ptl[-1][1] - 1} executed library lines for {ptl[-1][0]} characters (deterministic budget exceeded); (length, lines) so far {ptl}")
            return
        if k > 1 and pts[-1][0] < 1.5 * pts[-2][0]:
            res.cls.append("family-does-not-scale")
            return
    res.note = pts
    res.nt = pts[-1][1] >= 10**4
    vc, vl = _verdict(pts, 5000, 5), _verdict(ptl, 30000, 25)

    def detail(series, unit):
        return f"{name}: (length, {unit}) {series}; {unit} per character {[round(c / l, 1) for l, c in series]}"

    if vc == "super":
        res.fail(f"superlinear:{name}:{preset}", detail(pts, "calls"))
        return
    if vl == "super":
        res.fail(f"superlinear-lines:{name}:{preset}", detail(ptl, "lines"))
        return
    if "ambiguous" not in (vc, vl):
        return
    res.cls.append("ambiguous-growth(extended to 16L)")
    for k in (8, 16):
        measure(k)
        if pts[-1][1] > 4 * 10**7 or ptl[-1][1] > 4 * 10**8:
            break
    if vc == "ambiguous":
        sl = _slope(pts)
        if sl > 1.45:
            res.fail(f"superlinear:{name}:{preset}", f"{name}: growth exponent {sl:.2f} over (length, calls) {pts}")
            return
    if vl == "ambiguous":
        sl = _slope(ptl)
        if sl > 1.45:
            res.fail(f"superlinear-lines:{name}:{preset}", f"{name}: growth exponent {sl:.2f} over (length, lines) {ptl}")


def check(case) -> Res:
    res = Res()
    kind = case["kind"]
    res.cls.append(kind)
    md = _md(case["preset"])
    if kind == "catalogue":
        growth(md, F[case["family"]], max(case["L"], MIN_L.get(case["family"], 0)), res, case["family"], case["preset"])
        return res
    if kind == "generated":
        u, u2 = case["unit"], case["unit2"]

        def f(n, c=case):
            return c["prefix"] + u * n + c["middle"] + u2 * n + c["suffix"]

        probe = f(3)
        if KNOWN_D10.search(probe):
            res.cls.append("excluded:known-finding-D10(consecutive definitions)")
            return res
        growth(md, f, case["L"], res, "generated", case["preset"])
        return res
    # nesting cut-off
    mx = md.options["maxNesting"]
    f = NEST[case["family"]]
    base_c, base_d = cost(md, f(mx), call_budget(len(f(mx))))
    base_cpc = base_c / len(f(mx))
    res.nt = True
    if base_c > call_budget(len(f(mx))):
        res.fail(f"cost-explosion:nest-{case['family']}:{case['preset']}", f"depth {mx}: more than {base_c - 1} library calls for {len(f(mx))} characters (deterministic call budget exceeded)")
        return res
    for mult in (2, 8, 40):
        s = f(mx * mult)
        c, dep = cost(md, s, call_budget(len(s)))
        if c > call_budget(len(s)):
            res.fail(f"cost-explosion:nest-{case['family']}:{case['preset']}", f"depth {mx * mult}: more than {c - 1} library calls for {len(s)} characters (deterministic call budget exceeded)")
            break
        if c / len(s) > 1.3 * base_cpc + 5:
            res.fail(f"nesting-not-cut-off:cost:{case['family']}:{case['preset']}", f"depth {mx * mult}: {c / len(s):.1f} calls/char vs {base_cpc:.1f} at maxNesting={mx}")
            break
        if dep > base_d + 12:
            res.fail(f"nesting-not-cut-off:recursion:{case['family']}:{case['preset']}", f"depth {mx * mult}: Python call depth {dep} vs {base_d} at maxNesting={mx}")
            break
    return res

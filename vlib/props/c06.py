"""C06 - CommonMark container laws: quoting / list-indenting a document nests its blocks."""
from __future__ import annotations

import re

from hypothesis import strategies as st

from .. import cfg as C
from .. import gen
from ..runner import Res
from ..util import first_diff

ID = "C06"
LEVEL = "exploration"
RULE = (
    "cases = a newline-terminated document D without tab/CR/NUL (constructive block generator, corpus mutation, line "
    "soup) and a sequence of 1-3 (thorough: up to 6) wrappers, each '> ' quoting or a list marker (- * + N. N) with 1-4 "
    "spaces); the wrappers are applied one after the other and the law is checked at every step against the parse of "
    "the previous document. Non-trivial = D has >= 2 top-level blocks or a container or a multi-line leaf; distinct = "
    "distinct case hash."
)
ASSUMPTIONS = [
    "commonmark rule set with maxNesting=100 (the list-item form excludes the table rule, as the property states)",
    "list form: the tight-list 'hidden' flag is ignored and inline content is compared modulo blanks after a line break (lazy continuation lines keep their indentation); children are compared only when the contents are byte-equal",
]
SHRINK = {"text": ["src"], "list": ["wraps"]}

HR_RE = re.compile(r"^ {0,3}([-*_])( *\1){2,} *$")
MARKERS = ["-", "*", "+", "1.", "7)", "123.", "0.", "999999999)"]


def budget(tier: str) -> dict:
    return {"examples": 30000 if tier == "quick" else 500000, "max_wraps": 3 if tier == "quick" else 6}


def _strategy(max_wraps: int):
    @st.composite
    def case(draw):
        d = gen.D(draw)
        k = d.i(0, 9)
        if k < 6:
            src = gen.block_doc_d(d, tabs=False, maxdepth=2, final_newline=True, perturbed=d.chance(0.4))
        elif k < 8:
            src = gen.corpus_doc_d(d, tabs=False)
        else:
            src = gen.leaves_doc_d(d, tabs=False)
        src = src.replace("\t", "  ").replace("\r", "").replace("\0", "")
        if not src.endswith("\n"):
            src += "\n"
        wraps = []
        for _ in range(d.i(1, max_wraps)):
            if d.chance(0.45):
                wraps.append(["quote"])
            else:
                wraps.append(["list", d.pick(MARKERS), d.i(1, 4)])
        return {"src": src, "wraps": wraps}

    return case()


def strategy(tier: str):
    return _strategy(budget(tier)["max_wraps"])


def quote(D: str) -> str:
    return "".join("> " + ln + "\n" for ln in D[:-1].split("\n"))


def listwrap(D: str, marker: str, k: int) -> str:
    lines = D[:-1].split("\n")
    W = len(marker) + k
    out = [marker + " " * k + lines[0]] + [" " * W + ln for ln in lines[1:]]
    return "\n".join(out) + "\n"


def norm(tokens, dlevel: int, listform: bool):
    out = []
    for t in tokens:
        d = t.as_dict()
        d["level"] -= dlevel
        if listform:
            d["hidden"] = False
            d["content_cmp"] = re.sub(r"\n +", "\n", d["content"]) if d["type"] == "inline" else None
        out.append(d)
    return out


def _fix_titles(dicts) -> None:
    for t in dicts or []:
        at = t.get("attrs")
        if isinstance(at, dict) and isinstance(at.get("title"), str):
            at["title"] = re.sub(r"\n +", "\n", at["title"])
        elif isinstance(at, list):
            for pair in at:
                if isinstance(pair, list) and len(pair) == 2 and pair[0] == "title" and isinstance(pair[1], str):
                    pair[1] = re.sub(r"\n +", "\n", pair[1])
        if t.get("children"):
            _fix_titles(t["children"])


def _refs(env, listform: bool = False):
    refs, dups = env.get("references", {}), env.get("duplicate_refs", [])
    if listform:
        # a multi-line title keeps the indentation of its (lazy) continuation lines - the exemption the property grants
        fix = lambda r: {k: (re.sub(r"\n +", "\n", v) if isinstance(v, str) else v) for k, v in r.items()}  # noqa: E731
        return {k: fix(v) for k, v in refs.items()}, [fix(v) for v in dups]
    return refs, dups


_MD = {}


def _md():
    if "md" not in _MD:
        _MD["md"] = C.build(C.simple("commonmark", maxNesting=100))
    return _MD["md"]


def check(case) -> Res:
    res = Res()
    md = _md()
    D = case["src"]
    if not D.endswith("\n") or any(c in D for c in "\t\r\0"):
        res.cls.append("outside-domain")
        return res
    env0: dict = {}
    t0 = md.parse(D, env0)
    nblocks = sum(1 for t in t0 if t.level == 0 and t.nesting >= 0)
    res.nt = nblocks >= 2 or any(t.level > 0 and t.type != "inline" for t in t0) or any(t.map and t.map[1] - t.map[0] > 1 for t in t0)
    depth = 0
    for w in case["wraps"]:
        depth += 1
        if w[0] == "quote":
            Q = quote(D)
            envq: dict = {}
            tq = md.parse(Q, envq)
            ok_shape = len(tq) >= 2 and tq[0].type == "blockquote_open" and tq[-1].type == "blockquote_close" and tq[0].level == 0
            if not t0:
                # an empty document quoted is an empty quote
                ok_shape = ok_shape and len(tq) == 2
            if not ok_shape:
                res.fail("quote:not-one-blockquote", f"D={D!r} -> {[t.type for t in tq][:8]}")
                return res
            a = norm(tq[1:-1], 1, False)
            b = norm(t0, 0, False)
            if a != b:
                res.fail("quote:contents-differ", f"D={D!r}: {first_diff(a, b)}")
                return res
            if tq[0].map != [0, D.count("\n")] and t0:
                res.fail("quote:map", f"blockquote map {tq[0].map} for {D.count(chr(10))} lines")
            if _refs(envq) != _refs(env0):
                res.fail("quote:references-differ", f"D={D!r}: {_refs(envq)} != {_refs(env0)}")
            res.cls.append("quote")
            D, t0, env0 = Q, tq, envq
        else:
            _, marker, k = w
            if D[0] in " \n":
                res.cls.append("list-skipped(D starts with space)")
                break
            LD = listwrap(D, marker, k)
            if HR_RE.match(LD.split("\n")[0]):
                res.cls.append("list-skipped(thematic break)")
                break
            envl: dict = {}
            tl = md.parse(LD, envl)
            kind = "bullet_list" if marker in "-*+" else "ordered_list"
            ok_shape = (
                len(tl) >= 4 and tl[0].type == kind + "_open" and tl[1].type == "list_item_open" and tl[-2].type == "list_item_close"
                and tl[-1].type == kind + "_close" and tl[0].level == 0 and tl[1].level == 1
            )
            if not ok_shape:
                res.fail("list:not-one-item-list", f"D={D!r} marker={marker!r}+{k} -> {[t.type for t in tl][:8]}")
                return res
            a = norm(tl[2:-2], 2, True)
            b = norm(t0, 0, True)
            lazy_ok = any(t.type in ("blockquote_open", "bullet_list_open", "ordered_list_open") for t in t0)
            if lazy_ok:
                # the same exemption reaches link/image titles through multi-line titles of definitions (see _refs)
                _fix_titles(a)
                _fix_titles(b)
            for x, y in zip(a, b):
                if lazy_ok and x["type"] == "inline" and x["content"] != y["content"]:
                    # lazy-continuation indentation differs: compare content modulo it, not children
                    x["children"] = y["children"] = None
                    x["content"] = y["content"] = x["content_cmp"]
            if a != b:
                res.fail("list:contents-differ", f"D={D!r} marker={marker!r}+{k}: {first_diff(a, b)}")
                return res
            if kind == "ordered_list":
                num = int(marker[:-1])
                if tl[1].info != marker[:-1] or tl[1].markup != marker[-1]:
                    res.fail("list:item-info", f"marker {marker!r}: info={tl[1].info!r} markup={tl[1].markup!r}")
                if (tl[0].attrs.get("start", 1)) != num:
                    res.fail("list:start", f"marker {marker!r}: attrs={tl[0].attrs}")
            # indentation can only survive on lazy continuation lines, and those need a container inside D
            lazy_possible = any(t.type in ("blockquote_open", "bullet_list_open", "ordered_list_open") for t in t0)
            if _refs(envl, lazy_possible) != _refs(env0, lazy_possible):
                res.fail("list:references-differ", f"D={D!r}")
            res.cls.append("list")
            D, t0, env0 = LD, tl, envl
    res.cls.append(f"wrap-depth-{depth}")
    return res

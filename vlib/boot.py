"""Process bootstrap shared by every check.

* re-executes the interpreter with PYTHONHASHSEED=0 so that nothing depends on hash order;
* puts the repository working tree (``/repo`` or ``$VERIF_REPO``) first on ``sys.path`` and
  verifies that ``markdown_it`` is imported from there (the checks always exercise the current
  working tree; there is nothing to build for a pure-Python package);
* makes the offline-installed dependencies under ``/verif/.deps`` importable (hypothesis is used
  from the interpreter's own site-packages when it is already there).
"""
from __future__ import annotations

import os
import sys

VERIF = os.path.dirname(os.path.dirname(os.path.abspath(__file__)))
REPO = os.path.abspath(os.environ.get("VERIF_REPO", "/repo"))
DEPS = os.path.join(VERIF, ".deps")
GUARD = "MARKDOWN_IT_PY_VERIF"


def bootstrap(reexec: bool = True) -> None:
    if reexec and os.environ.get("PYTHONHASHSEED") != "0":
        os.environ["PYTHONHASHSEED"] = "0"
        os.execv(sys.executable, [sys.executable] + sys.argv)
    os.environ[GUARD] = "1"
    if VERIF not in sys.path:
        sys.path.insert(0, VERIF)
    # the repository working tree wins over any installed copy
    if REPO in sys.path:
        sys.path.remove(REPO)
    sys.path.insert(0, REPO)
    try:
        import hypothesis  # noqa: F401
    except ModuleNotFoundError:
        if os.path.isdir(DEPS):
            sys.path.append(DEPS)
    else:
        if os.path.isdir(DEPS) and DEPS not in sys.path:
            sys.path.append(DEPS)
    import markdown_it

    here = os.path.realpath(os.path.dirname(markdown_it.__file__))
    want = os.path.realpath(os.path.join(REPO, "markdown_it"))
    if here != want:
        print(f"HARNESS-ERROR markdown_it imported from {here}, expected {want}")
        sys.exit(2)


def lib_root() -> str:
    import markdown_it

    return os.path.realpath(os.path.dirname(markdown_it.__file__))

"""A deterministic thread scheduler that owns the interleaving at byte-code granularity.

Threads run strictly one at a time.  A switch can happen only between two byte-code instructions
of *library* code (code objects of ``markdown_it``), driven by ``sys.monitoring`` INSTRUCTION
events that are enabled locally on those code objects.  A schedule is a list of quanta: the
number of library instructions the running thread executes before the next thread (round robin
over the live ones) is released.  The same quanta list always gives the same interleaving.

Every thread has an instruction budget; exceeding it aborts that thread with a BaseException
(reported as non-termination under that schedule) - never a wall-clock timeout.
"""
from __future__ import annotations

import sys
import threading
import types

from . import boot

mon = sys.monitoring
TOOL = mon.DEBUGGER_ID
BIG = 10**12
_STATE = {"armed": False, "codes": 0, "focus_files": ("ruler.py",), "focus_codes": set(), "mut_codes": set(), "mut_names": {}, "mut_offsets": {}}
_MUTATORS = {"clear", "pop", "popitem", "setdefault", "update", "append", "add", "remove", "discard", "insert", "extend", "appendleft", "popleft", "move_to_end", "sort", "reverse"}


class Abort(BaseException):
    pass


_GLOBALS_OF: dict = {}


def _code_objects(root: str):
    seen = set()
    out = []

    def add(code, g=None):
        if not isinstance(code, types.CodeType) or id(code) in seen:
            return
        if not code.co_filename.startswith(root):
            return
        seen.add(id(code))
        out.append(code)
        if g is not None:
            _GLOBALS_OF[code] = g
        for c in code.co_consts:
            add(c, g)

    for name, mod in list(sys.modules.items()):
        if mod is None or not (name == "markdown_it" or name.startswith("markdown_it.")):
            continue
        for obj in list(vars(mod).values()):
            if isinstance(obj, types.FunctionType):
                add(obj.__code__, obj.__globals__)
            elif isinstance(obj, type):
                for v in list(vars(obj).values()):
                    f = v
                    if isinstance(v, (staticmethod, classmethod)):
                        f = v.__func__
                    if isinstance(v, property):
                        for g in (v.fget, v.fset, v.fdel):
                            if g is not None:
                                add(g.__code__, getattr(g, "__globals__", None))
                        continue
                    if hasattr(f, "__wrapped__"):
                        w = f.__wrapped__
                        if isinstance(w, types.FunctionType):
                            add(w.__code__, w.__globals__)
                    if isinstance(f, types.FunctionType):
                        add(f.__code__, f.__globals__)
    return out


def arm() -> int:
    """Enable INSTRUCTION events on every library code object (once per process)."""
    if _STATE["armed"]:
        return _STATE["codes"]
    # import everything the library can use lazily, so that all code objects exist
    import markdown_it  # noqa: F401
    import markdown_it.cli.parse  # noqa: F401
    import markdown_it.tree  # noqa: F401

    root = boot.lib_root()
    try:
        mon.use_tool_id(TOOL, "verif-sched")
    except ValueError:
        pass
    import dis

    codes = _code_objects(root)
    for c in codes:
        mon.set_local_events(TOOL, c, mon.events.INSTRUCTION)
        # code that writes module-level state is a focus of the single-switch sweep, like rule management
        ins_list = list(dis.get_instructions(c))
        if any(ins.opname in ("STORE_GLOBAL", "DELETE_GLOBAL") for ins in ins_list):
            _STATE["focus_codes"].add(c)
        # code that can mutate a module-level container (a memo, a registry): it loads a global that is bound to a
        # mutable container and holds a subscript store/delete or a call of a mutating method
        g = _GLOBALS_OF.get(c)
        if g is not None:
            names = [ins.argval for ins in ins_list if ins.opname == "LOAD_GLOBAL" and isinstance(g.get(ins.argval), (dict, list, set, bytearray)) or (ins.opname == "LOAD_GLOBAL" and type(g.get(ins.argval)).__name__ in ("deque", "OrderedDict", "defaultdict", "Counter"))]
            if names and any(ins.opname in ("STORE_SUBSCR", "DELETE_SUBSCR") or (ins.opname in ("LOAD_ATTR", "LOAD_METHOD") and ins.argval in _MUTATORS) for ins in ins_list):
                _STATE["mut_codes"].add(c)
                # byte-code offsets just after a mutation (a window of a dozen instructions behind each store/call)
                offs = set()
                for j, ins in enumerate(ins_list):
                    if ins.opname in ("STORE_SUBSCR", "DELETE_SUBSCR") or (ins.opname in ("LOAD_ATTR", "LOAD_METHOD") and ins.argval in _MUTATORS):
                        for nxt in ins_list[j + 1 : j + 14]:
                            offs.add(nxt.offset)
                _STATE["mut_offsets"][c] = offs
                _STATE["mut_names"][f"{c.co_filename[len(root) + 1:]}:{c.co_name}"] = sorted(set(names))
    _STATE["armed"] = True
    _STATE["codes"] = len(codes)
    return len(codes)


class Sched:
    def __init__(self, fns, plan, budget: int, record_focus: bool = False):
        self.fns = fns
        self.plan = list(plan)
        self.budget = budget
        self.n = len(fns)
        self.sem = [threading.Semaphore(0) for _ in fns]
        self.count = [0] * self.n
        self.quantum_left = BIG
        self.results: list = [None] * self.n
        self.alive = [True] * self.n
        self.ids: dict[int, int] = {}
        self.switches = 0
        self.switch_log: list = []
        self.record_focus = record_focus
        self.focus: list[int] = []  # instruction indices of thread 0 lying in rule-management code
        self.stalled = False
        self.mutpoints: list[int] = []  # ... just behind a mutation of such a container
        self.mutfocus: list[int] = []  # ... lying in code that can mutate a module-level container

    def _next_quantum(self) -> int:
        return self.plan.pop(0) if self.plan else BIG

    def _instr(self, code, offset):  # noqa: ARG002
        i = self.ids.get(threading.get_ident())
        if i is None:
            return
        c = self.count[i] + 1
        self.count[i] = c
        if c > self.budget:
            raise Abort()
        if self.record_focus and i == 0:
            if code.co_filename.endswith(_STATE["focus_files"]) or code in _STATE["focus_codes"]:
                self.focus.append(c)
            if code in _STATE["mut_codes"]:
                self.mutfocus.append(c)
                if offset in _STATE["mut_offsets"].get(code, ()):
                    self.mutpoints.append(c)
        self.quantum_left -= 1
        if self.quantum_left <= 0:
            self._switch(i)

    def _switch(self, i: int) -> None:
        for d in range(1, self.n):
            j = (i + d) % self.n
            if self.alive[j]:
                self.quantum_left = self._next_quantum()
                self.switches += 1
                if len(self.switch_log) < 16:
                    self.switch_log.append((i, self.count[i], j))
                self.sem[j].release()
                self.sem[i].acquire()
                return
        self.quantum_left = self._next_quantum()

    def _body(self, i: int) -> None:
        self.ids[threading.get_ident()] = i
        self.sem[i].acquire()
        try:
            self.results[i] = ("ok", self.fns[i]())
        except Abort:
            self.results[i] = ("nonterminating", None)
        except BaseException as e:  # noqa: BLE001
            self.results[i] = ("exception", f"{type(e).__name__}: {e}")
        finally:
            self.alive[i] = False
            for d in range(1, self.n + 1):
                j = (i + d) % self.n
                if self.alive[j]:
                    self.quantum_left = self._next_quantum()
                    self.sem[j].release()
                    break

    def run(self):
        arm()
        ts = [threading.Thread(target=self._body, args=(i,), daemon=True) for i in range(self.n)]
        mon.register_callback(TOOL, mon.events.INSTRUCTION, self._instr)
        try:
            for t in ts:
                t.start()
            self.quantum_left = self._next_quantum()
            self.sem[0].release()
            # a library that blocks (a lock held by a pre-empted thread) would stall this scheduler: give up on the
            # schedule when no library instruction is executed for two seconds - never a verdict
            last, idle = -1, 0
            while any(t.is_alive() for t in ts):
                for t in ts:
                    t.join(0.05 if idle == 0 else 0.5)
                    if t.is_alive():
                        break
                tot = sum(self.count)
                if tot == last:
                    idle += 1
                    if idle >= 5:
                        self.stalled = True
                        break
                else:
                    last, idle = tot, 0
        finally:
            mon.register_callback(TOOL, mon.events.INSTRUCTION, None)
        return self.results, self.count

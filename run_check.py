#!/venv/bin/python
"""Entry point of every check:  run_check.py <ID> [--tier quick|thorough] [--replay FILE]

exit 0: the property held on everything explored (KNOWN-FINDING lines allowed)
exit 1: at least one `VIOLATION property=<id> replay=<path>` line was printed
exit 2: harness error / inconclusive (never a verdict)
"""
import argparse
import os
import sys

sys.path.insert(0, os.path.dirname(os.path.abspath(__file__)))
from vlib import boot  # noqa: E402


def main() -> int:
    ap = argparse.ArgumentParser()
    ap.add_argument("id")
    ap.add_argument("--tier", default=os.environ.get("VERIF_TIER") or "quick", choices=["quick", "thorough"])
    ap.add_argument("--replay")
    ns = ap.parse_args()
    boot.bootstrap()
    os.chdir(boot.VERIF)
    from vlib import runner

    modname = "vlib.props." + ns.id.lower()
    try:
        seed = int(os.environ.get("VERIF_SEED", "1"))
    except ValueError:
        seed = 1
    if ns.replay:
        return runner.replay(modname, ns.replay)
    return runner.run(modname, ns.tier, seed)


if __name__ == "__main__":
    try:
        rc = main()
    except SystemExit:
        raise
    except BaseException as e:  # noqa: BLE001
        import traceback

        print("HARNESS-ERROR", "".join(traceback.format_exception(e)))
        rc = 2
    sys.stdout.flush()
    sys.exit(rc)

#!/usr/bin/env python3
"""Confirm a sub-agent's seeded change and keep it under /verif/seeded/<name>/.

usage: tools/intake.py <agent-out-dir> <PID> <N> [name]
Confirms in a fresh scratch worktree (outside /repo and /verif): the patch applies, the pinned suite still gives
875 passed with the same 32 linkify failures, the demonstration fails with the change and passes without it.
"""
import json, os, shutil, subprocess, sys, tempfile

out, pid, n = sys.argv[1], sys.argv[2], sys.argv[3]
name = sys.argv[4] if len(sys.argv) > 4 else f"{pid}-{n}"
patch = os.path.join(out, f"mutant{n}.diff"); demo = os.path.join(out, f"demo{n}.py"); meta = os.path.join(out, f"meta{n}.json")
wt = tempfile.mkdtemp(prefix="intake.", dir="/tmp")
def sh(cmd, cwd=None):
    p = subprocess.run(cmd, shell=True, cwd=cwd, capture_output=True, text=True, timeout=900)
    return p.returncode, (p.stdout + p.stderr)
rc, o = sh(f"git -C /repo worktree add -q --detach {wt} HEAD")
assert rc == 0, o
ok = True; ran = []
try:
    os.makedirs(os.path.join(wt, "out"), exist_ok=True)
    shutil.copy(demo, os.path.join(wt, "out", f"demo{n}.py"))
    rc0, o0 = sh(f"/venv/bin/python out/demo{n}.py", cwd=wt); ran.append(f"demo on clean tree: rc={rc0}")
    rc, o = sh(f"git apply {os.path.abspath(patch)}", cwd=wt)
    if rc != 0: print("APPLY FAILED", o); ok = False
    else:
        rc, o = sh("/venv/bin/python -m pytest -q -p no:cacheprovider 2>&1 | tail -1", cwd=wt)
        tail = o.strip().splitlines()[-1] if o.strip() else ""
        ran.append(f"pinned suite with change: {tail}")
        if "875 passed" not in tail or "32 failed" not in tail: print("SUITE CHANGED:", tail); ok = False
        rc1, o1 = sh(f"/venv/bin/python out/demo{n}.py", cwd=wt); ran.append(f"demo with change: rc={rc1}")
        if rc0 != 0 or rc1 == 0: print(f"DEMO not discriminating: clean rc={rc0} mutant rc={rc1}\n{o0[-500:]}\n{o1[-500:]}"); ok = False
finally:
    sh(f"git -C /repo worktree remove --force {wt}")
print("\n".join(ran))
if ok:
    dst = os.path.join("/verif/seeded", name); os.makedirs(dst, exist_ok=True)
    shutil.copy(patch, os.path.join(dst, "patch.diff")); shutil.copy(demo, os.path.join(dst, "demo.py"))
    m = json.load(open(meta)) if os.path.exists(meta) else {}
    m = {"property": pid, "breaks": m.get("summary", ""), "needs": m.get("needs", ""), "files": m.get("files", []),
         "origin": "independent sub-agent given only the property text and a scratch worktree",
         "confirmed": ran}
    json.dump(m, open(os.path.join(dst, "meta.json"), "w"), indent=1)
    print("KEPT", dst)
else:
    print("REJECTED", name)
    sys.exit(1)

#!/bin/sh
# run every registered quick check on the unchanged tree; print one line each
cd /verif
for id in $(python3 -c "import json;print(' '.join(c['property_id'] for c in json.load(open('MANIFEST.json'))['checks']))"); do
  if [ -n "${ONLY:-}" ] && ! echo "$ONLY" | grep -q "$id"; then continue; fi
  /venv/bin/python run_check.py $id --tier ${TIER:-quick} > /tmp/runall.$id.out 2>&1; rc=$?
  echo "$id rc=$rc $(tail -1 /tmp/runall.$id.out)"
  [ $rc -ne 0 ] && grep -E "VIOLATION|signature|detail|HARNESS" /tmp/runall.$id.out | head -12
done

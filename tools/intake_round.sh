#!/bin/sh
# usage: tools/intake_round.sh <agents-root> <first-number>   e.g. /tmp/sa5 9  -> seeded/<PID>-9, <PID>-10
ROOT=$1; N0=$2; NEW=""
for d in $ROOT/C??; do
  pid=$(basename $d)
  for k in 1 2; do
    n=$((N0 + k - 1)); name=$pid-$n
    [ -f $d/out/mutant$k.diff ] && [ -f $d/out/demo$k.py ] && [ -f $d/out/meta$k.json ] || continue
    [ -d /verif/seeded/$name ] && continue
    [ -f $d/out/.rejected$k ] && continue
    if python3 /verif/tools/intake.py $d/out $pid $k $name > $d/out/intake$k.log 2>&1; then NEW="$NEW $name"; else touch $d/out/.rejected$k; echo "REJECTED $name: $(tail -3 $d/out/intake$k.log | tr '\n' ' ')"; fi
  done
done
echo "NEW:$NEW"

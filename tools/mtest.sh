#!/bin/sh
# usage: tools/mtest.sh <patch-file | revert:<commit>> <ID> [<ID>...]   (env: TIER=quick VERIF_SEED=1)
# Applies a change to a scratch worktree of /repo (outside /repo and /verif), runs the checks against it, removes it.
set -u
SPEC="$1"; shift
case "$SPEC" in revert:*) ;; *) SPEC=$(realpath "$SPEC");; esac
WT=$(mktemp -d /tmp/mtest.XXXXXX)
git -C /repo worktree add -q --detach "$WT" HEAD || exit 2
case "$SPEC" in
  revert:*) (cd "$WT" && git revert --no-commit "${SPEC#revert:}" >/dev/null) || { echo "revert failed"; } ;;
  *) git -C "$WT" apply "$SPEC" || { echo "apply failed"; git -C /repo worktree remove --force "$WT"; exit 2; } ;;
esac
cd /verif
for id in "$@"; do
  VERIF_REPO="$WT" /venv/bin/python run_check.py "$id" --tier "${TIER:-quick}" > "$WT/.out" 2>&1
  rc=$?
  grep -E "VIOLATION|signature|detail|HARNESS|KNOWN|tier=" "$WT/.out" | cut -c1-260 | head -${LINES_MAX:-14}
  echo "rc[$id]=$rc"
done
git -C /repo worktree remove --force "$WT"

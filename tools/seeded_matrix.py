#!/usr/bin/env python3
"""Run checks against every kept seeded change and record which checks catch it.

usage: tools/seeded_matrix.py [--all-checks] [--in-repo] [--only NAME ...] [--tier quick]
Default: each seeded change is applied to its own scratch worktree of /repo (outside /repo and /verif) and the
check of the property it targets is run with VERIF_REPO pointing there; the worktree is removed afterwards.
--in-repo applies the patch to /repo itself (git -C /repo apply), runs the checks and undoes it straight afterwards
(git -C /repo checkout -- .), serially.
Writes seeded/<name>/result.json and seeded/RESULTS.md.
"""
import json, os, subprocess, sys, tempfile, time
from concurrent.futures import ThreadPoolExecutor

V = "/verif"
args = sys.argv[1:]
all_checks = "--all-checks" in args
in_repo = "--in-repo" in args
tier = args[args.index("--tier") + 1] if "--tier" in args else "quick"
suffix = args[args.index("--suffix") + 1] if "--suffix" in args else ""
only = None
if "--only" in args:
    only = [a for a in args[args.index("--only") + 1 :] if not a.startswith("--")]
ids = [c["property_id"] for c in json.load(open(f"{V}/MANIFEST.json"))["checks"]]
names = sorted(n for n in os.listdir(f"{V}/seeded") if os.path.isfile(f"{V}/seeded/{n}/patch.diff"))
if only:
    names = [n for n in names if n in only]


def sh(cmd, cwd=None, env=None, timeout=7200):
    p = subprocess.run(cmd, shell=True, cwd=cwd, capture_output=True, text=True, timeout=timeout, env=env)
    return p.returncode, p.stdout + p.stderr


def run_one(name):
    meta = json.load(open(f"{V}/seeded/{name}/meta.json"))
    target = meta["property"]
    checks = ids if all_checks else [target]
    patch = f"{V}/seeded/{name}/patch.diff"
    if in_repo:
        rc, o = sh(f"git -C /repo apply {patch}")
        repo = "/repo"
    else:
        repo = tempfile.mkdtemp(prefix="seedrun.", dir="/tmp")
        sh(f"git -C /repo worktree add -q --detach {repo} HEAD")
        rc, o = sh(f"git -C {repo} apply {patch}")
    out = {"name": name, "property": target, "tier": tier, "results": {}}
    try:
        if rc != 0:
            out["error"] = "patch does not apply: " + o[-300:]
            return out
        for cid in checks:
            env = dict(os.environ, VERIF_REPO=repo, VERIF_SEED=os.environ.get("VERIF_SEED", "1"))
            t0 = time.time()
            rc, o = sh(f"/venv/bin/python run_check.py {cid} --tier {tier}", cwd=V, env=env)
            sigs = [ln.strip()[len("signature: "):].split("   failing")[0] for ln in o.splitlines() if ln.strip().startswith("signature:")]
            out["results"][cid] = {"exit": rc, "violations": sum(1 for ln in o.splitlines() if ln.startswith("VIOLATION")), "signatures": sigs[:6], "wall_s": round(time.time() - t0, 1)}
    finally:
        if in_repo:
            sh("git -C /repo checkout -- .")
        else:
            sh(f"git -C /repo worktree remove --force {repo}")
    out["seed"] = os.environ.get("VERIF_SEED", "1")
    json.dump(out, open(f"{V}/seeded/{name}/result{suffix}.json", "w"), indent=1)
    return out


if in_repo or all_checks:
    outs = [run_one(n) for n in names]
else:
    with ThreadPoolExecutor(2) as ex:
        outs = list(ex.map(run_one, names))
allouts = []
for n in sorted(os.listdir(f"{V}/seeded")):
    rp = f"{V}/seeded/{n}/result{suffix}.json"
    if os.path.isfile(rp):
        allouts.append(json.load(open(rp)))
lines = [f"# Seeded changes vs checks (VERIF_SEED={os.environ.get('VERIF_SEED', '1')})", "", "Each row: one change kept under seeded/<name>/ (patch.diff, demo.py, meta.json), applied to a scratch copy of the repository,",
         "and the quick checks run against it (result.json holds the details).", "",
         "| seeded change | property | caught by its property's check | other checks that also fire | signatures (first) |", "|---|---|---|---|---|"]
for o in allouts:
    r = o.get("results", {})
    tgt = r.get(o["property"], {})
    others = [c for c, v in r.items() if c != o["property"] and v["exit"] == 1]
    try:
        oq = json.load(open(f"{V}/seeded/{o['name']}/meta.json")).get("outside_quantifier")
    except Exception:
        oq = None
    verdict = 'yes' if tgt.get('exit') == 1 else ('n/a - outside the property\'s quantifier: ' + oq if oq else 'NO (exit %s)' % tgt.get('exit'))
    row = f"| {o['name']} | {o['property']} | {verdict} | {' '.join(others) or '-'} | {'; '.join(tgt.get('signatures', [])[:2])} |"
    lines.append(row)
    if o["name"] in names:
        print(row)
open(f"{V}/seeded/RESULTS{suffix}.md", "w").write("\n".join(lines) + "\n")

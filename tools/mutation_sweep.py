#!/usr/bin/env python3
"""Systematic single-edit mutation sweep (sensitivity of the checks beyond hand-written / seeded changes).

phase 1 (suite):   every AST-level single edit (comparison flips, boundary +/-1, and/or, not-removal, boolean
                   constants, small integer constants) of the library's modules is applied to a scratch worktree and the
                   pinned suite is run; mutants the suite kills are discarded.
phase 2 (checks):  a seeded sample of the survivors is run against the quick checks relevant to the mutated file.

usage: tools/mutation_sweep.py suite [--jobs 8] [--limit N]
       tools/mutation_sweep.py checks [--sample 120] [--seed 1] [--jobs 2]
       tools/mutation_sweep.py report
Results: mutants/sweep/suite.json, mutants/sweep/checks.json, mutants/SWEEP_RESULTS.md.  Scratch worktrees live under /tmp
and are removed at the end.
"""
from __future__ import annotations

import ast
import copy
import json
import os
import random
import subprocess
import sys
import tempfile
from concurrent.futures import ThreadPoolExecutor

V = "/verif"
OUT = f"{V}/mutants/sweep"
FILES = [
    "main.py", "ruler.py", "token.py", "tree.py", "renderer.py", "utils.py", "parser_block.py", "parser_core.py", "parser_inline.py",
    "common/utils.py", "common/normalize_url.py", "helpers/parse_link_destination.py", "helpers/parse_link_label.py",
    "helpers/parse_link_title.py", "rules_core/block.py", "rules_core/inline.py", "rules_core/linkify.py", "rules_core/normalize.py",
    "rules_core/replacements.py", "rules_core/smartquotes.py", "rules_core/text_join.py", "rules_core/state_core.py",
    "rules_block/blockquote.py", "rules_block/code.py", "rules_block/fence.py", "rules_block/heading.py", "rules_block/hr.py",
    "rules_block/html_block.py", "rules_block/lheading.py", "rules_block/list.py", "rules_block/paragraph.py", "rules_block/reference.py",
    "rules_block/state_block.py", "rules_block/table.py", "rules_inline/autolink.py", "rules_inline/backticks.py",
    "rules_inline/balance_pairs.py", "rules_inline/emphasis.py", "rules_inline/entity.py", "rules_inline/escape.py",
    "rules_inline/fragments_join.py", "rules_inline/html_inline.py", "rules_inline/image.py", "rules_inline/link.py",
    "rules_inline/linkify.py", "rules_inline/newline.py", "rules_inline/state_inline.py", "rules_inline/strikethrough.py", "rules_inline/text.py",
]
RELEVANT = {
    "rules_block": ["C01", "C03", "C06", "C07", "C08", "C17", "C02"],
    "rules_inline": ["C01", "C02", "C04", "C05", "C09", "C18", "C19", "C08"],
    "rules_core": ["C01", "C02", "C17", "C18", "C19", "C09"],
    "helpers": ["C01", "C05", "C09", "C16", "C20"],
    "common": ["C01", "C05", "C09", "C16", "C04"],
    "renderer.py": ["C04", "C15", "C18", "C09", "C12"],
    "ruler.py": ["C11", "C10", "C12", "C14", "C13"],
    "main.py": ["C10", "C11", "C12", "C14", "C01"],
    "token.py": ["C15", "C04", "C12"],
    "tree.py": ["C15", "C02"],
    "utils.py": ["C10", "C12", "C18"],
    "parser_block.py": ["C01", "C03", "C07", "C20", "C06"],
    "parser_inline.py": ["C01", "C02", "C20", "C13", "C18"],
    "parser_core.py": ["C01", "C10", "C14"],
}
CMP = {ast.Lt: ast.LtE, ast.LtE: ast.Lt, ast.Gt: ast.GtE, ast.GtE: ast.Gt, ast.Eq: ast.NotEq, ast.NotEq: ast.Eq}


def sh(cmd, cwd=None, env=None, timeout=1800):
    try:
        p = subprocess.run(cmd, shell=True, cwd=cwd, capture_output=True, text=True, env=env, timeout=timeout)
        return p.returncode, p.stdout + p.stderr
    except subprocess.TimeoutExpired:
        return 124, "TIMEOUT"


def sites(tree):
    """Enumerate (node index, description) of mutation sites inside function bodies."""
    out = []
    nodes = list(ast.walk(tree))
    infunc = set()
    for n in nodes:
        if isinstance(n, (ast.FunctionDef, ast.AsyncFunctionDef)):
            for m in ast.walk(n):
                infunc.add(id(m))
    for i, n in enumerate(nodes):
        if id(n) not in infunc:
            continue
        if isinstance(n, ast.Compare) and len(n.ops) == 1 and type(n.ops[0]) in CMP:
            out.append((i, "cmp"))
        elif isinstance(n, ast.BoolOp):
            out.append((i, "boolop"))
        elif isinstance(n, ast.UnaryOp) and isinstance(n.op, ast.Not):
            out.append((i, "not"))
        elif isinstance(n, ast.Constant) and isinstance(n.value, bool):
            out.append((i, "bool"))
        elif isinstance(n, ast.Constant) and isinstance(n.value, int) and not isinstance(n.value, bool) and 0 <= n.value <= 9:
            out.append((i, "int+1"))
            if n.value > 0:
                out.append((i, "int-1"))
        elif isinstance(n, ast.BinOp) and isinstance(n.op, (ast.Add, ast.Sub)) and isinstance(n.right, ast.Constant) and n.right.value == 1:
            out.append((i, "addsub"))
    return out


def mutate(src: str, idx: int, kind: str) -> tuple[str, str] | None:
    tree = ast.parse(src)
    nodes = list(ast.walk(tree))
    n = nodes[idx]
    line = getattr(n, "lineno", 0)
    if kind == "cmp":
        n.ops = [CMP[type(n.ops[0])]()]
    elif kind == "boolop":
        n.op = ast.Or() if isinstance(n.op, ast.And) else ast.And()
    elif kind == "not":
        # replace `not x` by `x`: find parent
        for p in nodes:
            for f, v in ast.iter_fields(p):
                if v is n:
                    setattr(p, f, n.operand)
                elif isinstance(v, list) and n in v:
                    v[v.index(n)] = n.operand
    elif kind == "bool":
        n.value = not n.value
    elif kind == "int+1":
        n.value = n.value + 1
    elif kind == "int-1":
        n.value = n.value - 1
    elif kind == "addsub":
        n.op = ast.Sub() if isinstance(n.op, ast.Add) else ast.Add()
    try:
        return ast.unparse(ast.fix_missing_locations(tree)), f"line {line}: {kind}"
    except Exception:  # noqa: BLE001
        return None


def all_mutants():
    out = []
    for rel in FILES:
        src = open(f"/repo/markdown_it/{rel}").read()
        tree = ast.parse(src)
        for idx, kind in sites(tree):
            out.append((rel, idx, kind))
    return out


class Pool:
    def __init__(self, n):
        self.free = []
        for _ in range(n):
            wt = tempfile.mkdtemp(prefix="msweep.", dir="/tmp")
            sh(f"git -C /repo worktree add -q --detach {wt} HEAD")
            self.free.append(wt)
        self.all = list(self.free)

    def close(self):
        for wt in self.all:
            sh(f"git -C /repo worktree remove --force {wt}")


def phase_suite(jobs: int, limit: int | None):
    os.makedirs(OUT, exist_ok=True)
    muts = all_mutants()
    random.Random(1).shuffle(muts)
    if limit:
        muts = muts[:limit]
    pool = Pool(jobs)
    results = []
    import threading

    lock = threading.Lock()

    def work(m):
        rel, idx, kind = m
        with lock:
            wt = pool.free.pop()
        try:
            path = f"{wt}/markdown_it/{rel}"
            orig = open(f"/repo/markdown_it/{rel}").read()
            r = mutate(orig, idx, kind)
            if r is None:
                return None
            new, desc = r
            open(path, "w").write(new)
            rc, o = sh("timeout 120 /venv/bin/python -m pytest -q -x -p no:cacheprovider --deselect tests/test_linkify.py -k 'not linkify' 2>&1 | tail -1", cwd=wt, timeout=200)
            tail = o.strip().splitlines()[-1] if o.strip() else ""
            survived = (" passed" in tail) and ("failed" not in tail) and ("error" not in tail.lower())
            open(path, "w").write(orig)
            sh("git checkout -q -- .", cwd=wt)
            return {"file": rel, "idx": idx, "kind": kind, "desc": desc, "suite": tail[:80], "survived": survived}
        finally:
            with lock:
                pool.free.append(wt)

    try:
        with ThreadPoolExecutor(jobs) as ex:
            for k, r in enumerate(ex.map(work, muts)):
                if r:
                    results.append(r)
                if k % 50 == 0:
                    print(k, len(muts), sum(1 for x in results if x["survived"]), flush=True)
                    json.dump(results, open(f"{OUT}/suite.json", "w"), indent=0)
    finally:
        pool.close()
    json.dump(results, open(f"{OUT}/suite.json", "w"), indent=0)
    print("mutants", len(results), "survived the suite", sum(1 for x in results if x["survived"]))


def relevant_checks(rel: str) -> list[str]:
    for k, v in RELEVANT.items():
        if rel == k or rel.startswith(k + "/"):
            return v
    return ["C01"]


def phase_checks(sample: int, seed: int, jobs: int):
    res = json.load(open(f"{OUT}/suite.json"))
    surv = [r for r in res if r["survived"]]
    random.Random(seed).shuffle(surv)
    surv = surv[:sample]
    done = {}
    cp = f"{OUT}/checks.json"
    if os.path.exists(cp):
        done = {f"{r['file']}:{r['idx']}:{r['kind']}": r for r in json.load(open(cp))}
    pool = Pool(jobs)
    import threading

    lock = threading.Lock()

    def work(m):
        key = f"{m['file']}:{m['idx']}:{m['kind']}"
        if key in done:
            return done[key]
        with lock:
            wt = pool.free.pop()
        try:
            rel = m["file"]
            orig = open(f"/repo/markdown_it/{rel}").read()
            new, desc = mutate(orig, m["idx"], m["kind"])
            open(f"{wt}/markdown_it/{rel}", "w").write(new)
            rc, diff = sh("git diff -U0 | grep '^[-+][^-+]' | head -6", cwd=wt)
            out = dict(m, diff=diff[:600], checks={})
            for cid in relevant_checks(rel):
                env = dict(os.environ, VERIF_REPO=wt, VERIF_SEED="1")
                rc, o = sh(f"/venv/bin/python run_check.py {cid} --tier quick", cwd=V, env=env, timeout=1500)
                sig = [ln.strip()[11:80] for ln in o.splitlines() if ln.strip().startswith("signature:")][:2]
                out["checks"][cid] = {"exit": rc, "sig": sig}
                if rc == 1:
                    break  # detected; one detecting check is enough
            sh("git checkout -q -- .", cwd=wt)
            return out
        finally:
            with lock:
                pool.free.append(wt)

    results = list(done.values())
    try:
        with ThreadPoolExecutor(jobs) as ex:
            for k, r in enumerate(ex.map(work, surv)):
                if r not in results:
                    results.append(r)
                det = any(c["exit"] == 1 for c in r["checks"].values())
                print(k, r["file"], r["desc"], "DETECTED" if det else "undetected", {c: v["exit"] for c, v in r["checks"].items()}, flush=True)
                json.dump(results, open(cp, "w"), indent=0)
    finally:
        pool.close()
    report()


def report():
    s = json.load(open(f"{OUT}/suite.json"))
    lines = ["# Single-edit mutation sweep", "", f"AST-level single edits generated: {len(s)}; killed by the pinned suite: {sum(1 for x in s if not x['survived'])}; survived the suite: {sum(1 for x in s if x['survived'])}.", ""]
    cp = f"{OUT}/checks.json"
    if os.path.exists(cp):
        c = json.load(open(cp))
        det = [r for r in c if any(v["exit"] == 1 for v in r["checks"].values())]
        und = [r for r in c if r not in det]
        lines += [f"Sample of suite survivors run against the relevant quick checks: {len(c)}; reported as a violation by at least one check: {len(det)}; not reported: {len(und)} (equivalent mutants and gaps, listed below).", "",
                  "| file | edit | changed line(s) | checks run (exit) |", "|---|---|---|---|"]
        for r in und:
            d = r.get("diff", "").replace("\n", " // ").replace("|", "\\|")[:160]
            lines.append(f"| {r['file']} | {r['desc']} | `{d}` | {', '.join(f'{k}:{v['exit']}' for k, v in r['checks'].items())} |")
    open(f"{V}/mutants/SWEEP_RESULTS.md", "w").write("\n".join(lines) + "\n")
    print("\n".join(lines[:6]))


if __name__ == "__main__":
    a = sys.argv[1:]
    def opt(name, default):
        return type(default)(a[a.index(name) + 1]) if name in a else default
    if a[0] == "suite":
        phase_suite(opt("--jobs", 8), opt("--limit", 0) or None)
    elif a[0] == "checks":
        phase_checks(opt("--sample", 120), opt("--seed", 1), opt("--jobs", 2))
    else:
        report()

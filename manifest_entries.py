# table consumed by tools_manifest.py:  add(id, level category, level text, trusted base, technique, DESIGN.md section)
add("C01", "exploration",
    "Generated (document x configuration x cut-offset) search plus complete enumeration of all <=3-line (thorough: <=4-line) documents over a 38-shape line alphabet; any exception other than the documented ones, or exceeding a deterministic call budget, is a violation. Absence is not proved; the enumerated sub-space is covered completely.",
    "Trusts the generators' reach (class histogram in evidence), a test-double linkifier, and CPython itself; hangs are decided by a deterministic call budget.",
    "property-based testing (Hypothesis, constructive Markdown grammar + corpus mutation) + bounded-exhaustive enumeration; oracle: totality (no exception / call budget)",
    "DESIGN.md section 4, C01")
ALL = ["C%02d" % i for i in range(1, 21)]
NA = [{"property_id": p, "reason": "check under construction in this round; not claimed until its oracle is built and shown quiet on the unchanged tree"} for p in ALL if p not in CHECKS]

# table consumed by tools_manifest.py:  add(id, level category, level text, trusted base, technique, DESIGN.md section)
add("C01", "exploration",
    "Generated (document x configuration x cut-offset) search plus complete enumeration of all <=3-line (thorough: <=4-line) documents over a 40-shape line alphabet, of all <=4-token (thorough 5) strings over a 24-token inline alphabet and all <=3-token strings over a 24-token typographic alphabet, the C20 families at moderate sizes under a deterministic call budget; any exception other than the documented ones, or exceeding a deterministic call budget, is a violation. Absence is not proved; the enumerated sub-space is covered completely.",
    "Trusts the generators' reach (class histogram in evidence), a test-double linkifier, and CPython itself; hangs are decided by a deterministic call budget.",
    "property-based testing (Hypothesis, constructive Markdown grammar + corpus mutation) + bounded-exhaustive enumeration; oracle: totality (no exception / call budget)",
    "DESIGN.md section 4, C01")
add("C02", "exploration",
    "Generated (document x configuration) search; every stream returned by parse and parseInline is checked, recursively through inline and image children, against a validity predicate (bracket discipline with kind/tag/markup match, level == depth, block flags, children placement, no adjacent text, closed token vocabulary) and fed to SyntaxTreeNode; plus complete enumeration of all <=4-token (thorough 5) strings over an 18-token inline alphabet and the C20 catalogue families at two sizes. Known finding D12 (tree RecursionError on several-hundred-level emphasis) is reported as KNOWN-FINDING.",
    "Trusts the oracle's reading of the statement (parseInline's synthetic wrapper token is exempt from the block flag); a test-double linkifier.",
    "property-based testing (Hypothesis; inline-rich constructive generators incl. dense delimiter/bracket nests); oracle: validity predicate over the token stream + tree construction",
    "DESIGN.md section 4, C02")
add("C03", "exploration",
    "Generated (document x block-rule configuration) search; every mapped token is checked for range, non-blank start (and end where stated), containment in the enclosing map, sibling order and, for inline containers, that the content sits on the mapped lines; every non-blank line must be covered by a top-level map or a recorded reference definition.",
    "Blank = only spaces/tabs; for nested tokens the start-line test is the weaker 'holds a non-blank character'; lines of a paragraph map that hold no content may consist of characters str.strip() removes (the paragraph rule strips them).",
    "property-based testing (Hypothesis; documents with tabs, CR/CRLF, NUL, truncation); oracle: geometric validity predicate on maps + coverage",
    "DESIGN.md section 4, C03")
add("C04", "exploration",
    "Generated (document x configuration with html off) search incl. payload templates aimed at every output sink; the rendered output of render and renderInline must be accepted by a strict lexer/parser of the renderer's own output language (fixed elements, per-element attributes, escaped text and values, void spelling per xhtmlOut, balanced nesting); the C20 catalogue families at two sizes are checked too.",
    "Default renderer, no highlight callback; test-double linkifier; the core 'inline' step is additionally switched off in a small share of cases (raw content then reaches the renderer).",
    "property-based testing (Hypothesis; sink-directed payload templates + general generators); oracle: strict grammar of the output language",
    "DESIGN.md section 4, C04")
add("C05", "exploration",
    "Generated search over semantic URLs x per-character spellings x prefixes/suffixes x the link producers x configurations; every href/src on tokens and in HTML is judged by an independent URL-safety grammar and a browser-style scheme reader; rejected constructs must render exactly as with the link rules switched off; normalizeLink/validateLink are also driven directly.",
    "The browser model (strip C0+space at the ends, drop TAB/CR/LF, case-insensitive) follows the WHATWG URL preprocessing; the linkifier is a permissive test double.",
    "property-based testing (Hypothesis; semantic URL x spelling generator); oracle: independent URL grammar + scheme blacklist reader, differential 'link rules off' relation",
    "DESIGN.md section 4, C05")
add("C06", "exploration",
    "Generated search over newline-terminated tab-free documents and chains of 1-3 (thorough 6) quote/list wrappers; after every wrapping step the parse must be exactly one container whose contents equal the previous parse token for token (maps, content, markup, info, attrs, meta, children; level shifted), with equal reference definitions.",
    "commonmark rules, maxNesting=100; list form ignores the tight-list hidden flag and indentation kept on lazy continuation lines, exactly the exceptions the property names.",
    "property-based testing (Hypothesis); oracle: metamorphic relation (CommonMark container laws) applied repeatedly",
    "DESIGN.md section 4, C06")
add("C07", "exploration",
    "Generated search over pairs (A, B) x configurations; side conditions (A closed, B at column 0, not list+list/code+code) are decided on probe parses; block tokens of A+blank+B must equal those of A+blank followed by those of B with shifted maps.",
    "A is compared together with its separating blank line; children excluded as the property states.",
    "property-based testing (Hypothesis; seam-directed catalogue of single blocks + constructive documents); oracle: metamorphic concatenation relation with probe-decided preconditions",
    "DESIGN.md section 4, C07")
add("C08", "exploration",
    "Generated (document x block-rule configuration) search; each verbatim block is compared line by line with the source lines its map names (suffix-with-container-prefix predicate inside containers, exact 4-column tab-stop model at top level), code spans with the text between their backtick strings under the CommonMark normalisation, and markup/info/start fields with the characters written on the token's own lines.",
    "Relies on maps being right (C03 checks them); inside containers the removed prefix is only required to match the container-prefix grammar.",
    "property-based testing (Hypothesis; tab-respelling and edge-blank code-span generators); oracle: source-line reference model (exact at top level, validity predicate in containers)",
    "DESIGN.md section 4, C08")
add("C09", "exploration",
    "Generated search over single-line texts t x two spelling forms (backslash before every ASCII punctuation character; per-character mix of raw/backslash/decimal/hex/named references) x 12 context documents (paragraph, heading, emphasis, link text, image alt, link title with edge blanks, six table-cell shapes) x 2 presets; the rendering must equal the context's fixed HTML frame around the independently escaped t, byte for byte.",
    "Expected output comes from an own 4-replacement escaper and fixed frames; named references from Python's HTML5 table; NUL/CR/LF excluded from t.",
    "property-based testing (Hypothesis); oracle: explicit expected output (reference model of literal text)",
    "DESIGN.md section 4, C09")
add("C10", "exploration",
    "Generated (document x configuration x option values) search with four clauses: token kinds present must have an enabled producer under an independent rule->kind table (also for instances reconfigured after use); table/strikethrough on == off for documents without their trigger; inline_definitions/store_labels change nothing but definition tokens/label metadata (tokens, env, HTML modulo line breaks after tags); constructor, item and attribute option routes are indistinguishable; an instance configured after use behaves like one configured at construction; rule switches mixed with ignored unknown names still switch the known ones.",
    "The active rule set is modelled by the harness from preset tables + enable/disable lists; attribute route only for options with a property on OptionsDict.",
    "property-based testing (Hypothesis); oracle: reachability table (reference model) + differential relations (rule on/off, option on/off, three option routes)",
    "DESIGN.md section 4, C10")
add("C11", "exploration",
    "Generated operation histories (shrunk as one value) on a bare Ruler and on the MarkdownIt facade, executed against an explicit reference model (ordered rule records, first-match lookup): reported sets are compared with the model after every step, the applied function lists of every chain at every observation, raising calls may leave either documented state; on the facade the parse of the live instance must equal that of a fresh instance carrying exactly the reported rules; probe rules observe that each rule is consulted exactly in the terminator contexts of its alt chains and that every enabled rule of core/inline/inline2 runs once per pass. A Hypothesis RuleBasedStateMachine over the same executor is a second engine.",
    "Histories are data interpreted by a model executor (state-machine testing with replayable histories); the fallback rules paragraph/text stay enabled on the facade because a parse without them does not terminate (outside the supported configurations).",
    "stateful property-based testing (Hypothesis-generated histories vs. reference model); oracle: reference model + applied==reported differential",
    "DESIGN.md section 4, C11")
add("C12", "exploration",
    "Generated histories over up to three live instances (construction from names, caller-owned preset dicts and shared option mappings; calls with env omitted/fresh/shared; rule, option, render-rule and reset_rules operations); every probe compares the live instance with a fresh instance rebuilt from that instance's own configuration recipe (tokens, HTML, env; env omitted vs {}), and module presets / caller-owned mappings with their snapshots; around every configuration operation another instance is probed before and after, and brand-new instances are compared before and after the history.",
    "Render rules come from a small registry of pure functions; recipes contain configuration operations only.",
    "stateful property-based testing (Hypothesis-generated multi-instance histories); oracle: configuration-recipe replay on a fresh instance (differential) + snapshot invariants",
    "DESIGN.md section 4, C12")
add("C13", "exploration",
    "The harness owns the schedule: threads are serialised by a deterministic scheduler on sys.monitoring INSTRUCTION events of library code, and a schedule (list of quanta) is a reproducible, generated value. Systematic single-switch sweeps (every pre-emption point inside rule-management code at the stated stride, uniform grid elsewhere), round-robin schedules with fixed quanta, Hypothesis-generated multi-switch plans for 2 (thorough 3) threads, and nested re-entrant calls from plugin rules of every chain and from a render rule at every k-th invocation; every call must return exactly its solo result within a deterministic instruction budget.",
    "Pre-emption between byte-codes of markdown_it code only; the exact sweep focus is rule-management code and code writing module globals; process-global lazies warmed; all single-switch points only at the stated stride/grid, multi-switch schedules sampled.",
    "schedule-owning property-based testing (deterministic byte-code scheduler + systematic single-switch sweep + generated multi-switch plans + re-entrancy injection); oracle: interleaved == solo",
    "DESIGN.md section 4, C13")
add("C14", "fault_enumeration",
    "For generated (document, configuration, entry point) triples every user-replaceable callback (each active rule of the four chains via Ruler.at, each render rule via add_render_rule, the highlight callback) is wrapped, its invocations are counted, and an exception of four kinds is injected at the enumerated crash points (all in thorough, stratified sample per callback in quick); plus reset_rules bodies leaving normally/by exception/nested. The injected object must reach the caller and the instance must equal a never-failed control (rules, options, probe parses/renders).",
    "Wrappers read the original function/alt list from Ruler.__rules__; crash points are whole callback invocations (an exception raised in the middle of a library rule is not modelled).",
    "fault injection at enumerated callback invocations (Hypothesis-generated documents/configurations/reset_rules bodies); oracle: exception identity + instance vs. never-failed control",
    "DESIGN.md section 4, C14")
add("C15", "exploration",
    "Generated token streams (document x configuration, with meta-producing options on in a share); every token is round-tripped through as_dict/from_dict (both attribute formats; with/without children), the stream through SyntaxTreeNode (identical tokens back, walk == stream order, parent/sibling links, attribute proxies), and rendered twice, after a deep copy and after a dict round-trip, with identical output and unchanged tokens.",
    "from_dict(as_dict(children=False)) is asserted for child-less tokens only (see DESIGN.md); rendering through md.renderer.render with the parse's env.",
    "property-based testing (Hypothesis); oracle: round-trips (serialise/deserialise, tree/flatten), link-consistency invariants, idempotence of rendering",
    "DESIGN.md section 4, C15")
add("C16", "exploration",
    "Generated cases of four kinds: seeded env == prepended definitions (HTML, references, duplicates; seeding twice); constructed documents whose definition line spans the harness knows (recorded exactly once with that span, first wins); label variants with equal case fold and blank-collapsed form must resolve; reference form vs inline form of one spelled (text, destination, title) triple must give identical children and HTML, for links and images.",
    "Label matching asserted in one direction only; reference-vs-inline only when the reference form resolves (the converse asymmetry is counted).",
    "property-based testing (Hypothesis; constructive definition/label/triple generators); oracle: metamorphic relation (seed == prepend), reference model of definition bookkeeping, differential reference-form vs inline-form",
    "DESIGN.md section 4, C16")
add("C17", "exploration",
    "Five metamorphic relations over generated documents (LF vs CRLF/CR/mixed; NUL vs U+FFFD and no NUL/CR in any output string; leading tabs vs column-exact spaces; structural blank runs, decided by a probe parse, respelled with column-equivalent tabs in multi-line documents) plus COMPLETE enumeration of all one-line documents of <=2 container segments x 15 leaves x every tab spelling vs the all-space spelling (about 9.7e5 pairs, every run); 3-segment lines sampled.",
    "Tab relations compare after the exemptions the property grants (blank runs in verbatim content, code spans, blanks after line breaks in other strings); exhaustiveness is claimed only for the enumerated <=2-segment sub-space.",
    "property-based testing (Hypothesis) + bounded-exhaustive enumeration; oracle: metamorphic equivalence of encodings",
    "DESIGN.md section 4, C17")
add("C18", "exploration",
    "Generated search with three clauses: single-paragraph sources (decided on the block parse) vs parseInline/renderInline; one-line inline texts embedded in heading/bullet/ordered/quote/table-cell contexts under the stated guards vs the paragraph (content, children, HTML); all documents x 16 combinations of the renderer-only options x presets: equal tokens, and exact HTML relations (void spelling, soft breaks, fence class prefix, highlight calls and body) on nonce-substituted copies of the stream.",
    "Nonces are chosen not to occur in the source; contexts need 4 nesting levels, so maxNesting < 10 is lifted for that clause.",
    "property-based testing (Hypothesis); oracle: differential (paragraph vs inline mode vs block contexts) + metamorphic option relations",
    "DESIGN.md section 4, C18")
add("C19", "exploration",
    "Generated documents dense in typographic triggers x {replacements, smartquotes, both} x quotes values x presets; streams are snapshotted right before text_join (through a core rule added via the public API) and at the end, typographer off vs on: identical shape and identical non-text/autolink-text content, smartquotes-only text must full-match the off text as a quote-substitution pattern; plus escape-spelling vs numeric-reference spelling of protected characters must render identically with the typographer on.",
    "The replacements rule itself is not re-implemented: what it may do to plain text is unconstrained, what it must not touch is checked.",
    "property-based testing (Hypothesis); oracle: differential typographer on/off with structural invariants + metamorphic escape==entity relation",
    "DESIGN.md section 4, C19")
add("C20", "exploration",
    "A catalogue of about 125 scalable pathological input families (incl. two-part families and the sparse square table) x 3 presets, measured with a deterministic cost (Python-level calls into markdown_it during render, sys.setprofile) at lengths L, 2L, 4L (and 8L, 16L when the first three are ambiguous): every doubling must cost at most 1.25 x the length ratio and the cost per character must not drift; nesting families must show no growth of cost per character or of Python call depth beyond maxNesting; plus Hypothesis-generated families prefix.unit^n.middle.unit'^n.suffix. The known quadratic family (consecutive reference definitions) is reported as KNOWN-FINDING and excluded by construction from generated families.",
    "Cost inside C primitives is invisible to the measure; inputs are bounded by L (quick 500, thorough up to 25000 characters); thresholds as stated in the evidence rule.",
    "deterministic cost measurement over a fixed catalogue + Hypothesis-generated repeat-pattern families; oracle: linear-growth predicate on call counts",
    "DESIGN.md section 4, C20")
ALL = ["C%02d" % i for i in range(1, 21)]
NA = [{"property_id": p, "reason": "check under construction in this round; not claimed until its oracle is built and shown quiet on the unchanged tree"} for p in ALL if p not in CHECKS]

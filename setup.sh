#!/bin/sh
# Offline setup: make hypothesis (and atheris, for the thorough tiers) importable by /venv/bin/python.
set -e
cd "$(dirname "$0")"
mkdir -p .deps evidence replays
if ! /venv/bin/python -c "import hypothesis" 2>/dev/null; then
  /venv/bin/pip install --quiet --no-index --find-links /opt/veriftools/wheels --target .deps hypothesis
fi
if ! PYTHONPATH=.deps /venv/bin/python -c "import atheris" 2>/dev/null; then
  /venv/bin/pip install --quiet --no-index --find-links /opt/veriftools/wheels --target .deps atheris || echo "atheris not installed (auxiliary engine only)"
fi
/venv/bin/python -c "import sys; sys.path.insert(0,'/repo'); import markdown_it; print('markdown_it', markdown_it.__version__, markdown_it.__file__)"
echo setup ok
